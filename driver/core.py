"""Driver: builds the harness, runs sharded workers under watchdogs, merges results,
matches known findings, writes evidence, prints verdict lines.  Python stdlib only."""
import hashlib
import json
import os
import re
import shutil
import signal
import subprocess
import sys
import time

VERIF = os.path.dirname(os.path.dirname(os.path.abspath(__file__)))
HARNESS = os.path.join(VERIF, "harness")
BUILD = os.path.join(VERIF, ".build")
RUNDIR = os.path.join(BUILD, "run")
REPLAYS = os.path.join(VERIF, "replays")
EVIDENCE = os.path.join(VERIF, "evidence")
REPO = "/repo"
NCPU = os.cpu_count() or 16

ENV = dict(os.environ)
ENV["CARGO_NET_OFFLINE"] = "true"
ENV.setdefault("RUST_BACKTRACE", "0")


def log(*a):
    print(*a, file=sys.stderr, flush=True)


# ------------------------------------------------------------------ builds

PROFILES = {
    # name: (toolchain args, cargo args, target dir, binary path, extra env)
    "dev": ([], [], "stable", "debug/worker", {}),
    "release": ([], ["--release"], "stable", "release/worker", {}),
    "asan": (
        ["+nightly"],
        ["--target", "x86_64-unknown-linux-gnu"],
        "asan",
        "x86_64-unknown-linux-gnu/debug/worker",
        {"RUSTFLAGS": "-Zsanitizer=address -Cforce-frame-pointers=yes"},
    ),
}

# Miri interprets the worker; there is no binary to start, every shard goes through `cargo miri run`
MIRI_ENV = {
    # isolation off: the worker writes its checkpoint/result files; Tree Borrows is the aliasing model
    # (the crate's intrusive lists and raw-pointer tables are written against raw pointers throughout)
    "MIRIFLAGS": "-Zmiri-disable-isolation -Zmiri-tree-borrows -Zmiri-ignore-leaks",
}
MIRI_CMD = ["cargo", "+nightly", "miri", "run", "--offline", "--bin", "worker", "--"]

_built = {}


def build(profile):
    """(Re)build the worker for a profile from /repo's current working tree. Returns binary path or None."""
    if profile in _built:
        return _built[profile]
    if profile == "miri":
        env = dict(ENV)
        env.update(MIRI_ENV)
        env["CARGO_TARGET_DIR"] = os.path.join(BUILD, "miri")
        t0 = time.time()
        p = subprocess.run(MIRI_CMD + ["selftest"], cwd=HARNESS, env=env, stdout=subprocess.PIPE, stderr=subprocess.STDOUT, text=True)
        dt = time.time() - t0
        if p.returncode != 0 or "caoverif-selftest-ok" not in p.stdout:
            log(f"[build:miri] FAILED in {dt:.1f}s\n" + p.stdout[-4000:])
            _built[profile] = None
            return None
        log(f"[build:miri] ok in {dt:.1f}s")
        _built[profile] = "MIRI"
        return "MIRI"
    tc, cargs, tdir, binrel, extra = PROFILES[profile]
    env = dict(ENV)
    env.update(extra)
    env["CARGO_TARGET_DIR"] = os.path.join(BUILD, tdir)
    cmd = ["cargo"] + tc + ["build", "--offline", "--bin", "worker"] + cargs
    t0 = time.time()
    p = subprocess.run(cmd, cwd=HARNESS, env=env, stdout=subprocess.PIPE, stderr=subprocess.STDOUT, text=True)
    dt = time.time() - t0
    binp = os.path.join(BUILD, tdir, binrel)
    if p.returncode != 0 or not os.path.exists(binp):
        log(f"[build:{profile}] FAILED in {dt:.1f}s\n" + p.stdout[-4000:])
        _built[profile] = None
        return None
    log(f"[build:{profile}] ok in {dt:.1f}s")
    _built[profile] = binp
    return binp


def worker_cmd(binp):
    return list(MIRI_CMD) if binp == "MIRI" else [binp]


def worker_env(binp, spec=None):
    env = dict(ENV)
    if spec:
        env.update(spec.get("env", {}))
    if binp == "MIRI":
        env.update(MIRI_ENV)
        env["CARGO_TARGET_DIR"] = os.path.join(BUILD, "miri")
    return env


def worker_cwd(binp):
    return HARNESS if binp == "MIRI" else VERIF


# ------------------------------------------------------------------ running shards

class Shard:
    def __init__(self, spec, binp, idx, nshards, seed, tier, cases, outdir):
        self.spec = spec
        self.binp = binp
        self.idx = idx
        self.nshards = nshards
        self.seed = seed
        self.tier = tier
        self.cases = cases
        self.outdir = outdir
        self.part = 0
        self.start_at = 0
        self.skip = []
        self.partials = []
        self.crashes = []
        self.proc = None
        self.t0 = None
        self.done = False
        self.restarts = 0

    def out_path(self):
        return os.path.join(self.outdir, f"{self.spec['engine']}-{self.spec.get('profile','dev')}-{self.idx}.p{self.part}.json")

    def launch(self):
        out = self.out_path()
        for f in (out, out + ".inflight", out + ".stderr"):
            if os.path.exists(f):
                os.remove(f)
        cmd = (MIRI_CMD if self.binp == "MIRI" else [self.binp]) + [self.spec["engine"], "--seed", str(self.seed), "--shard", str(self.idx),
               "--nshards", str(self.nshards), "--cases", str(self.cases), "--tier", self.tier,
               "--out", out, "--start-at", str(self.start_at)]
        if self.skip:
            cmd += ["--skip", ",".join(map(str, self.skip))]
        for k, v in self.spec.get("args", {}).items():
            cmd += [f"--x-{k}", str(v)]
        env = dict(ENV)
        env.update(self.spec.get("env", {}))
        cwd = VERIF
        if self.binp == "MIRI":
            env.update(MIRI_ENV)
            env["CARGO_TARGET_DIR"] = os.path.join(BUILD, "miri")
            cwd = HARNESS
        self.stderr_f = open(out + ".stderr", "wb")
        self.proc = subprocess.Popen(cmd, cwd=cwd, env=env, stdout=subprocess.DEVNULL, stderr=self.stderr_f, start_new_session=True)
        self.t0 = time.time()

    def read_json(self, path):
        try:
            with open(path) as f:
                return json.load(f)
        except Exception:
            return None

    def poll(self, timeout_s):
        """returns True when this shard is finished for good"""
        if self.done:
            return True
        rc = self.proc.poll()
        timed_out = False
        if rc is None:
            stalled = False
            try:
                stalled = time.time() - os.path.getmtime(self.out_path() + ".inflight") > self.spec.get("stall_s", 30)
            except OSError:
                stalled = time.time() - self.t0 > self.spec.get("stall_s", 30) + 30
            if stalled or time.time() - self.t0 > timeout_s:
                timed_out = True
                try:
                    os.killpg(self.proc.pid, 9)
                except OSError:
                    self.proc.kill()
                self.proc.wait()
                rc = -9
            else:
                return False
        self.stderr_f.close()
        out = self.out_path()
        res = self.read_json(out)
        if rc == 0 and res and res.get("done"):
            self.partials.append(res)
            self.done = True
            return True
        # crashed / killed: attribute to the in-flight case
        inflight = ""
        try:
            inflight = open(out + ".inflight").read()
        except Exception:
            pass
        m = re.search(r"CASE (\d+)", inflight)
        case_idx = int(m.group(1)) if m else None
        notes = [l for l in inflight.splitlines()[1:]]
        try:
            stderr = open(out + ".stderr", "rb").read().decode("utf-8", "replace")
        except Exception:
            stderr = ""
        self.crashes.append({
            "engine": self.spec["engine"], "profile": self.spec.get("profile", "dev"), "shard": self.idx,
            "case_idx": case_idx, "rc": rc, "timed_out": timed_out, "notes": notes,
            # sanitizer reports start with the headline and can be long: keep both ends
            "stderr": stderr if len(stderr) <= 12000 else stderr[:6000] + "\n[...]\n" + stderr[-6000:], "wall_s": time.time() - self.t0,
        })
        if res:
            self.partials.append(res)
            resume = res.get("last_idx", -1) + 1 if res.get("evaluations", 0) > 0 else self.start_at
        else:
            resume = self.start_at
        if case_idx is None or self.restarts >= self.spec.get("max_restarts", 25):
            self.done = True
            return True
        self.skip.append(case_idx)
        # cases between the checkpoint and the crash are re-run; the crashed one is skipped
        self.start_at = max(resume, self.start_at)
        self.part += 1
        self.restarts += 1
        self.launch()
        return False


def run_spec(spec, seed, tier, outdir):
    """run one engine spec over all shards; returns (merged result, crashes) or None when unavailable"""
    profile = spec.get("profile", "dev")
    binp = build(profile)
    if binp is None:
        return None
    nshards = spec.get("shards", NCPU)
    cases = spec["cases"][tier]
    if cases <= 0:
        return {"skipped": True}, []
    timeout_s = spec.get("timeout_s", {}).get(tier, 600 if tier == "quick" else 3600)
    shards = [Shard(spec, binp, i, nshards, seed, tier, cases, outdir) for i in range(nshards)]
    pending = list(shards)
    running = []
    maxpar = spec.get("parallel", NCPU)
    while pending or running:
        while pending and len(running) < maxpar:
            s = pending.pop(0)
            s.launch()
            running.append(s)
        time.sleep(0.05)
        running = [s for s in running if not s.poll(timeout_s)]
    merged = merge([p for s in shards for p in s.partials])
    crashes = [c for s in shards for c in s.crashes]
    return merged, crashes


def split_hashes(s):
    return {s[i:i + 16] for i in range(0, len(s), 16)}


def merge(parts):
    m = {"evaluations": 0, "hashes": set(), "nontrivial": set(), "counters": {}, "samples": [],
         "violations": [], "violations_by_sig": {}, "inconclusive": {}, "skipped": {}, "self_check_errors": [],
         "worker_wall_s": 0.0}
    for p in parts:
        m["evaluations"] += p.get("evaluations", 0)
        m["hashes"] |= split_hashes(p.get("hashes", ""))
        m["nontrivial"] |= split_hashes(p.get("nontrivial_hashes", ""))
        for k, v in p.get("counters", {}).items():
            if k.startswith("max:"):
                m["counters"][k] = max(m["counters"].get(k, 0), v)
            else:
                m["counters"][k] = m["counters"].get(k, 0) + v
        for s in p.get("samples", []):
            if len(m["samples"]) < 3:
                m["samples"].append(s)
        m["violations"] += p.get("violations", [])
        for k, v in p.get("violations_by_sig", {}).items():
            m["violations_by_sig"][k] = m["violations_by_sig"].get(k, 0) + v
        for k, v in p.get("inconclusive", {}).items():
            m["inconclusive"][k] = m["inconclusive"].get(k, 0) + v
        for k, v in p.get("skipped", {}).items():
            m["skipped"][k] = m["skipped"].get(k, 0) + v
        if p.get("self_check_error"):
            m["self_check_errors"].append(p["self_check_error"])
        m["worker_wall_s"] += p.get("wall_s", 0.0)
    return m


# ------------------------------------------------------------------ crash classification

def first_repo_frame(stderr):
    """first stack frame inside cao-lang/src of a sanitizer / panic report"""
    for line in stderr.splitlines():
        m = re.search(r"#\d+ 0x[0-9a-f]+ in (\S+) .*?cao-lang/src/([\w/]+\.rs)", line)
        if m:
            fn = re.sub(r"::h[0-9a-f]{16}$", "", m.group(1))
            fn = re.sub(r"<[^<>]*>", "<>", fn)
            return f"{m.group(2)}:{fn.split('::')[-1] if '::' in fn else fn}"
    return None


def classify_crash(c):
    """returns (kind, sig, detail) where kind in violation|inconclusive"""
    st = c["stderr"]
    eng = c["engine"]
    if c["timed_out"]:
        ev = [n for n in c["notes"] if n.startswith("EVIDENCE ")]
        if ev:
            return "violation", f"hang:{eng}:{ev[0][9:]}", f"worker killed by watchdog after {c['wall_s']:.0f}s; logical evidence: {ev}"
        return "hang", f"hang:{eng}", f"worker killed by watchdog after {c['wall_s']:.0f}s in case {c['case_idx']} (notes {c['notes']})"
    m = re.search(r"error: (Undefined Behavior|unsupported operation|memory leaked|deadlock|abnormal termination|resource exhaustion|post-monomorphization error)[:.]? ?([^\n]*)", st) if c.get("profile") == "miri" else None
    if m:
        kind = m.group(1)
        what = re.sub(r"alloc\d+|0x[0-9a-f]+|\d+", "#", m.group(2))[:90]
        # first frame inside the crate: "N: path::to::function\n    at /repo/cao-lang/src/file.rs:L:C" (or "inside `f` at file")
        fm = re.search(r"\d+: ([^\n]+)\n\s+at [^\n]*?cao-lang/src/([\w/]+\.rs)", st) or re.search(r"inside `([^`]+)` at [^\n]*?cao-lang/src/([\w/]+\.rs)", st)
        if fm:
            fn = fm.group(1).strip()
            while re.search(r"<[^<>]*>", fn):
                fn = re.sub(r"<[^<>]*>", "", fn)
            parts = [x for x in fn.split('::') if x]
            fr = f"{fm.group(2)}:{parts[-1] if parts else '?'}"
        else:
            fr = "?"
        if kind in ("unsupported operation", "resource exhaustion"):
            return "inconclusive", f"miri:{kind}", st[-2500:]
        return "violation", f"miri:{kind}:{what}@{fr}", st[-3500:]
    m = re.search(r"ERROR: AddressSanitizer: ([\w-]+)", st)
    if m:
        fr = first_repo_frame(st) or "?"
        return "violation", f"asan:{m.group(1)}@{fr}", st[-3000:]
    if "LeakSanitizer: detected memory leaks" in st:
        fr = first_repo_frame(st) or "?"
        return "violation", f"lsan:leak@{fr}", st[-3000:]
    if "stack overflow" in st or c["rc"] in (-signal.SIGSEGV, -signal.SIGBUS) and "overflowed its stack" in st:
        return "violation", f"native-stack-overflow:{eng}", st[-1500:]
    if c["rc"] is not None and c["rc"] < 0:
        signame = signal.Signals(-c["rc"]).name if -c["rc"] in [s.value for s in signal.Signals] else str(c["rc"])
        mm = re.search(r"(memory allocation of \d+ bytes failed|free\(\): [\w ]+|double free[\w ()]*|malloc\(\): [\w ()]+|corrupted [\w ()-]+|munmap_chunk\(\): [\w ]+)", st)
        extra = ":" + re.sub(r"\d+", "#", mm.group(1)) if mm else ""
        return "violation", f"crash:{signame}:{eng}{extra}", st[-1500:]
    return "violation", f"crash:exit{c['rc']}:{eng}", st[-1500:]


def dump_case(spec, seed, tier, case_idx):
    prof = spec.get("profile", "dev")
    binp = (build(prof) if prof != "miri" else None) or build("dev")
    cmd = [binp, spec["engine"], "--seed", str(seed), "--nshards", "1", "--tier", tier,
           "--only-case", str(case_idx), "--dump-case"]
    for k, v in spec.get("args", {}).items():
        cmd += [f"--x-{k}", str(v)]
    try:
        p = subprocess.run(cmd, cwd=VERIF, env=ENV, stdout=subprocess.PIPE, stderr=subprocess.DEVNULL, text=True, timeout=120)
        return json.loads(p.stdout.splitlines()[0]).get("case")
    except Exception as e:
        return {"error": f"could not regenerate case: {e}"}


# ------------------------------------------------------------------ known findings

def load_known():
    p = os.path.join(VERIF, "known_findings.json")
    if not os.path.exists(p):
        return []
    return json.load(open(p)).get("findings", [])


def match_known(pid, sig, known):
    for k in known:
        if k.get("property") == pid and k.get("status") == "known" and k.get("signature") == sig:
            return k
    return None


# ------------------------------------------------------------------ evidence validation (structural; jsonschema used when importable)

def validate_evidence(ev):
    errs = []
    for k in ("property_id", "tier", "seed", "level", "coverage", "wall_s"):
        if k not in ev:
            errs.append(f"missing {k}")
    cov = ev.get("coverage", {})
    if ev.get("level") in ("exploration", "fault_enumeration"):
        for k in ("evaluations", "distinct_nontrivial", "rule", "samples"):
            if k not in cov:
                errs.append(f"coverage missing {k}")
        if cov.get("evaluations", 0) < 1:
            errs.append("evaluations < 1")
        if cov.get("distinct_nontrivial", 0) < 2:
            errs.append("distinct_nontrivial < 2")
        if not cov.get("samples"):
            errs.append("no samples")
    try:
        import jsonschema  # noqa
        schema = json.load(open("/root/.vp/EVIDENCE.schema.json"))
        jsonschema.validate(ev, schema)
    except ImportError:
        pass
    except FileNotFoundError:
        pass
    except Exception as e:  # validation error
        errs.append(f"schema: {str(e)[:300]}")
    return errs


def sig_id(sig):
    return hashlib.sha1(sig.encode()).hexdigest()[:10]


# ------------------------------------------------------------------ main check routine

def run_check(pid, cfg, tier, seed, replay=None):
    t0 = time.time()
    os.makedirs(REPLAYS, exist_ok=True)
    os.makedirs(EVIDENCE, exist_ok=True)
    outdir = os.path.join(RUNDIR, pid)
    shutil.rmtree(outdir, ignore_errors=True)
    os.makedirs(outdir, exist_ok=True)

    if replay:
        r = json.load(open(replay))
        spec = None
        for s in cfg["engines"]:
            if s["engine"] == r.get("engine") and s.get("profile", "dev") == r.get("profile", "dev"):
                spec = s
        if spec is None:
            spec = {"engine": r.get("engine"), "profile": r.get("profile", "dev")}
        binp = build(spec.get("profile", "dev"))
        if binp is None:
            print(f"REPLAY build of profile {spec.get('profile', 'dev')} failed")
            return 2
        cmd = worker_cmd(binp) + [spec["engine"], "--replay", os.path.abspath(replay)]
        for k, v in spec.get("args", {}).items():
            cmd += [f"--x-{k}", str(v)]
        p = subprocess.run(cmd, cwd=worker_cwd(binp), env=worker_env(binp, spec))
        if p.returncode not in (0, 1):
            print(f"REPLAY worker ended with status {p.returncode}")
            return 1
        return p.returncode

    known = load_known()
    all_viol = []       # (sig, detail, replay payload)
    engines_ev = []
    total_eval = 0
    nontrivial = set()
    counters = {}
    samples = []
    inconclusive = {}
    skipped = {}
    unavailable = []
    hangs = []
    primary_ok = False

    # regression witnesses of fixed / known findings run first
    fdir = os.path.join(VERIF, "findings")
    n_witness = 0
    if os.path.isdir(fdir):
        for fn in sorted(os.listdir(fdir)):
            if not (fn.startswith(pid + "-") and fn.endswith(".json")):
                continue
            w = json.load(open(os.path.join(fdir, fn)))
            binp = build(w.get("profile", "dev"))
            if binp is None:
                continue
            cmd = [binp, w["engine"], "--replay", os.path.join(fdir, fn)]
            for k, v in w.get("args", {}).items():
                cmd += [f"--x-{k}", str(v)]
            try:
                p = subprocess.run(cmd, cwd=VERIF, env=ENV, stdout=subprocess.PIPE, stderr=subprocess.PIPE, text=True, timeout=w.get("timeout_s", 120))
                n_witness += 1
                if p.returncode == 0:
                    continue
                m = re.search(r'sig: "((?:[^"\\]|\\.)*)"', p.stdout)
                if p.returncode == 1 and m:
                    sig = m.group(1).encode().decode("unicode_escape")
                    all_viol.append((sig, "regression witness " + fn + ": " + p.stdout[-800:], dict(w, witness=fn)))
                else:
                    c = {"engine": w["engine"], "profile": w.get("profile", "dev"), "shard": 0, "case_idx": None, "rc": p.returncode,
                         "timed_out": False, "notes": [], "stderr": p.stderr if len(p.stderr) <= 12000 else p.stderr[:6000] + "\n[...]\n" + p.stderr[-6000:], "wall_s": 0}
                    kind, sig, detail = classify_crash(c)
                    all_viol.append((sig, "regression witness " + fn + ": " + detail, dict(w, witness=fn)))
            except subprocess.TimeoutExpired:
                all_viol.append((w.get("sig", "hang:" + w["engine"]), "regression witness " + fn + " does not finish", dict(w, witness=fn)))
    counters["regression_witnesses_replayed"] = n_witness

    for spec in cfg["engines"]:
        if tier not in spec["cases"] or spec["cases"][tier] <= 0:
            continue
        r = run_spec(spec, seed, tier, outdir)
        label = f"{spec['engine']}/{spec.get('profile','dev')}"
        if r is None:
            unavailable.append(label)
            log(f"[{pid}] engine {label} unavailable (build failed)")
            if spec.get("primary", True):
                inconclusive[f"primary engine {label} could not be built"] = 1
            continue
        merged, crashes = r
        if spec.get("primary", True):
            primary_ok = True
        total_eval += merged["evaluations"]
        nontrivial |= {label.split('/')[0] + h for h in merged["nontrivial"]}
        for k, v in merged["counters"].items():
            kk = k if spec.get("primary", True) and spec.get("profile", "dev") == "dev" else f"{spec.get('profile','dev')}:{k}"
            if k.startswith("max:"):
                counters[kk] = max(counters.get(kk, 0), v)
            else:
                counters[kk] = counters.get(kk, 0) + v
        for s in merged["samples"]:
            if len(samples) < 4:
                samples.append({"engine": label, "case": s})
        for k, v in merged["inconclusive"].items():
            inconclusive[k] = inconclusive.get(k, 0) + v
        for k, v in merged["skipped"].items():
            skipped[k] = skipped.get(k, 0) + v
        for e in merged["self_check_errors"]:
            all_viol.append((f"self-check:{spec['engine']}", e, {"engine": spec["engine"], "profile": spec.get("profile", "dev"), "case": None}))
        for v in merged["violations"]:
            all_viol.append((v["sig"], v["detail"], {"engine": spec["engine"], "profile": spec.get("profile", "dev"),
                                                     "case_idx": v.get("case_idx"), "seed": v.get("seed"), "case": v.get("case")}))
        # count violations that were not materialised (beyond the per-sig cap)
        for c in crashes:
            kind, sig, detail = classify_crash(c)
            if kind == "hang":
                hangs.append((spec, c))
                continue
            if kind == "inconclusive":
                inconclusive[sig] = inconclusive.get(sig, 0) + 1
                continue
            case = dump_case(spec, seed, tier, c["case_idx"]) if c["case_idx"] is not None else None
            all_viol.append((sig, detail, {"engine": spec["engine"], "profile": spec.get("profile", "dev"),
                                           "case_idx": c["case_idx"], "seed": seed, "case": case, "crash": True}))
        engines_ev.append({"engine": label, "evaluations": merged["evaluations"],
                           "distinct_cases": len(merged["hashes"]),
                           "distinct_nontrivial": len(merged["nontrivial"]),
                           "crashes": len(crashes), "worker_cpu_s": round(merged["worker_wall_s"], 1),
                           "violations_by_sig": merged["violations_by_sig"]})

    # hangs: decided on an isolated re-run (design section 0: wall-clock alone never decides)
    for spec, c in hangs:
        label = f"hang in {spec['engine']} case {c['case_idx']}"
        if cfg.get("hang_is_violation") and c["case_idx"] is not None and spec.get("profile", "dev") != "miri":
            binp = build(spec.get("profile", "dev"))
            cmd = [binp, spec["engine"], "--seed", str(seed), "--nshards", "1", "--tier", tier, "--only-case", str(c["case_idx"])]
            for k, v in spec.get("args", {}).items():
                cmd += [f"--x-{k}", str(v)]
            lim = cfg.get("hang_isolated_timeout_s", 60)
            try:
                subprocess.run(cmd, cwd=VERIF, env=ENV, stdout=subprocess.DEVNULL, stderr=subprocess.DEVNULL, timeout=lim)
                inconclusive[label + " (finished when re-run alone)"] = 1
            except subprocess.TimeoutExpired:
                case = dump_case(spec, seed, tier, c["case_idx"])
                all_viol.append((f"hang:{spec['engine']}", f"case does not finish within {lim}s when run alone on an idle core (comparable cases take milliseconds)",
                                 {"engine": spec["engine"], "profile": spec.get("profile", "dev"), "case_idx": c["case_idx"], "seed": seed, "case": case, "hang": True}))
        else:
            inconclusive[label] = inconclusive.get(label, 0) + 1

    # ---------------- verdicts
    by_sig = {}
    for sig, detail, payload in all_viol:
        by_sig.setdefault(sig, []).append((detail, payload))
    n_unknown = 0
    known_hits = {}
    lines = []
    for sig, items in sorted(by_sig.items()):
        detail, payload = items[0]
        k = match_known(pid, sig, known)
        if k:
            known_hits[sig] = len(items)
            lines.append(f"KNOWN-FINDING: property={pid} {sig}: {k.get('what','')}")
            continue
        n_unknown += 1
        path = os.path.join(REPLAYS, f"{pid}-{sig_id(sig)}.json")
        payload = dict(payload)
        payload.update({"property": pid, "sig": sig, "detail": detail, "tier": tier})
        with open(path, "w") as f:
            json.dump(payload, f, indent=1)
        lines.append(f"VIOLATION property={pid} replay={path}")
        log(f"[{pid}] violation sig={sig}\n      {detail[:600]}")

    # ---------------- floors
    floor_fail = []
    if not primary_ok:
        floor_fail.append("no primary engine ran")
    hard = cfg.get("hard_floor", {})
    if total_eval < hard.get("evaluations", 100):
        floor_fail.append(f"evaluations {total_eval} < {hard.get('evaluations', 100)}")
    if len(nontrivial) < 2:
        floor_fail.append(f"distinct non-trivial cases {len(nontrivial)} < 2")
    for k, n in hard.get("counters", {}).items():
        got = sum(v for kk, v in counters.items() if re.fullmatch(k, kk))
        if got < n:
            floor_fail.append(f"counter {k} = {got} < {n}")
    targets = {}
    for k, n in cfg.get("targets", {}).get(tier, {}).items():
        got = sum(v for kk, v in counters.items() if re.fullmatch(k, kk))
        targets[k] = {"target": n, "measured": got, "met": got >= n}

    wall = time.time() - t0
    ev = {
        "property_id": pid,
        "tier": tier,
        "seed": seed,
        "level": cfg["level"],
        "coverage": {
            "evaluations": total_eval,
            "distinct_nontrivial": len(nontrivial),
            "rule": cfg["rule"],
            "samples": samples if samples else [{"note": "no non-trivial case finished without a violation"}],
            "engines": engines_ev,
            "observations": dict(sorted(counters.items())),
            "coverage_targets": targets,
            "inconclusive": inconclusive,
            "unspecified_cases_skipped": skipped,
            "engines_unavailable": unavailable,
            "known_finding_hits": known_hits,
            "floor_failures": floor_fail,
            "verdict": "violated" if n_unknown else ("inconclusive" if floor_fail else "held-on-observed"),
        },
        "assumptions": cfg.get("assumptions", []),
        "wall_s": round(wall, 2),
        "violations": n_unknown,
    }
    if cfg["level"] == "translation_validation":
        ev["coverage"]["programs"] = counters.get("programs_validated", total_eval)
        ev["coverage"]["disagreements_checked"] = counters.get("checks_performed", 0)
    errs = validate_evidence(ev)
    with open(os.path.join(EVIDENCE, f"{pid}.json"), "w") as f:
        json.dump(ev, f, indent=1, default=str)
    for l in lines:
        print(l)
    print(f"[{pid}] tier={tier} seed={seed} evaluations={total_eval} distinct_nontrivial={len(nontrivial)} "
          f"violations={n_unknown} known={len(known_hits)} inconclusive={sum(inconclusive.values())} wall={wall:.1f}s")
    if errs:
        print(f"[{pid}] evidence self-validation problems: {errs}")
    if n_unknown:
        return 1
    if floor_fail:
        print(f"INCONCLUSIVE property={pid} reason={'; '.join(floor_fail)}")
        return 2
    if errs:
        return 3
    return 0
