#!/usr/bin/env python3
"""Regenerates /verif/MANIFEST.json from driver/checks.py (claimed checks) and properties.jsonl (the rest -> not_applicable)."""
import json, os, sys, subprocess
sys.path.insert(0, os.path.dirname(os.path.abspath(__file__)))
import checks
V = os.path.dirname(os.path.dirname(os.path.abspath(__file__)))
props = [json.loads(l) for l in open(os.path.join(V, "properties.jsonl"))]
hook_commits = [l.split()[0] for l in subprocess.run(["git", "-C", "/repo", "log", "--format=%h %s"], capture_output=True, text=True).stdout.splitlines() if "verif-hooks" in l.split(" ", 1)[1][:20]]
m = {
    "version": 1,
    "setup_cmd": "./check --setup",
    "hooks": {
        "guard": "verif-hooks",
        "enable": "cargo feature: /verif/harness depends on cao-lang = { path = \"/repo/cao-lang\", features = [\"verif-hooks\"] }; every check rebuilds the worker with cargo from /repo's working tree",
        "baseline_off_cmd": "cd /repo && cargo test --workspace --no-fail-fast --offline",
        "source_commits": list(reversed(hook_commits)),
        "add_only": True,
    },
    "engines": [],
    "checks": [],
    "notes": "Runtime monitoring only: every verdict is an oracle observing executions of the real crate. Known findings and fixed defects: known_findings.json. See DESIGN.md.",
    "not_applicable": [],
}
engines = {}
for pid, c in checks.CHECKS.items():
    for e in c["engines"]:
        engines.setdefault(e["engine"], set()).add(pid)
for name, pids in sorted(engines.items()):
    m["engines"].append({"name": name, "path": f"harness/src/e_{name}.rs", "serves_properties": sorted(pids),
                         "kind_free_text": checks.ENGINE_KINDS.get(name, "seeded workload + runtime oracle in the worker binary")})
for p in props:
    pid = p["id"]
    if pid in checks.CHECKS:
        c = checks.CHECKS[pid]
        m["checks"].append({
            "property_id": pid,
            "quick_cmd": f"./check {pid} quick",
            "thorough_cmd": f"./check {pid} thorough",
            "evidence_file": f"/verif/evidence/{pid}.json",
            "replay_cmd_template": f"./check {pid} --replay {{path}}",
            "engine": ",".join(sorted({e["engine"] for e in c["engines"]})),
            "level_claimed": {"category": c["level"], "text": c["level_text"], "design_ref": c.get("design_ref", f"DESIGN.md section 6, {pid}")},
            "level_note": c["level_note"],
            "technique": c["technique"],
        })
    else:
        m["not_applicable"].append({"property_id": pid, "reason": checks.NOT_CLAIMED.get(pid, "check under construction (engine designed in DESIGN.md section 6, not yet built and validated); not claimed until it is")})
json.dump(m, open(os.path.join(V, "MANIFEST.json"), "w"), indent=1)
print("claimed:", [c["property_id"] for c in m["checks"]], "not claimed:", [n["property_id"] for n in m["not_applicable"]])
