"""Per-property check configuration (what is run, how much, floors, evidence wording)."""

HIST_RULE = ("seeded operation histories (case idx -> PRNG seed) over engineered key universes; executed against the real "
             "collection and a reference model in lock-step with full-state comparison after every operation; a case is "
             "distinct by the hash of its JSON and non-trivial when it ran to the end without a violation, has >= 20 "
             "operations and crossed at least one growth step (maps) / has >= 10 operations (stacks)")

ENGINE_KINDS = {
    "table": "one generated table history judged twice: through the host API (CaoLangTable insert/get/remove/append/pop/len/nth_key/iter/keys on VM tables, fresh key objects per lookup) against an ordered-map model with full comparison after every operation, or as a generated script (SetProperty/GetProperty/AppendTable/PopTable/Len/Get/ForEach through aliases, table fields and a closure) against the reference interpreter",
    "stdlib": "programs built around one library call (filter/map/any/min/max/min_by_key/max_by_key/sorted/sorted_by_key/to_array) on generated tables with ties, callbacks as closures or named functions, judged against the executable specification in the reference interpreter",
    "host": "typed host functions (Value, i64, f64, bool, &str, &CaoLangTable, *mut CaoLangTable, Nilable<_>; arity 0-4) that record what they receive, called through CallNative / native value + dynamic call / another host function re-entering the VM; probe natives that measure value-stack height and call depth around run_function",
    "serde": "round trips of source modules (JSON, YAML -> recompile, byte-compare), compiled programs (JSON, CBOR, bincode -> field-compare and re-run) and runtime values (OwnedValue -> JSON/CBOR/bincode -> insert_value into another VM -> deep-compare)",
    "laws": "pools of runtime values built in a VM (boundary integers, reals incl. signed zero/NaN/inf, strings, nested acyclic tables in equal and different insertion orders, function values); all pairs and sampled triples checked against the equivalence, hash-consistency and order laws through the Rust traits the interpreter uses",
    "trace": "faults planted at known cards (by Card.id) in every child slot of many card kinds, at call depth 0-4, in root and sub-modules, plus resource faults and compile faults; the error trace is resolved through Module::lookup_submodule / get_card and compared with the planted card and call chain",
    "budget": "dispatch-counter monitor at the per-instruction hook (counts every dispatch at every nesting level, stops the run and leaves logical evidence when it passes the budget) + self-differential across budgets around the measured instruction need",
    "lifecycle": "histories of (program, run, clear) on one VM against a fresh-VM twin in lock-step (C17); offline ledger checker over the allocator's alloc/dealloc event log, forced full collection after OutOfMemory (C05)",
    "bytecode": "every compiler output of the run decoded front to back and validated in full (opcodes, operand widths, final Exit, jump targets, labels, function handles, string operands, index ranges, ids/names bijection, trace keys and coverage) by an independent verifier; opcode table cross-checked against the crate's",
    "gc": "collector forced at every / each single / every n-th / random subsets of a program's allocation points (allocator hook); heap-reachability audit at the dispatch hook after every instruction that collected (quarantine makes swept objects recognisable by address); released-memory checksum; self-differential against the run without collections; the same schedules under AddressSanitizer without quarantine",
    "total": "hostile inputs (arbitrary card trees through the JSON/YAML loaders, size-limit modules, hostile well-scoped programs under tiny stacks/heaps/budgets) under crash, panic, abort, native-stack-overflow and hang monitors in isolated workers",
    "resolve": "generated module trees with same-named functions, imports (function, module, super.) valid and invalid; every function logs a unique tag; reference resolver + reference interpreter decide which bodies must run and which modules must be rejected",
    "prog": "generated well-scoped card programs run in the real VM and in an independent tree-walking reference interpreter; final globals, host-call log and result kind compared",
    "prog-closures": "as prog, with closure-heavy random programs and parametrised closure scenarios (counters, sibling sharing, per-iteration capture, capture of captures, same card position in two modules, shadowing)",
    "module": "edit histories on Module/Card (get/insert/remove/replace/swap/walk, child API) vs an independent owned-tree model, compared by card id after every edit",
    "hashmap": "operation histories on CaoHashMap vs BTreeMap model in lock-step, drop registry, allocation-failure sweep through the allocator hook",
    "handletable": "operation histories on HandleTable vs BTreeMap model in lock-step, drop registry, logical hang guard (len == capacity)",
    "stacks": "operation histories on ValueStack / BoundedStack vs Vec models, drop registry",
}

NOT_CLAIMED = {}

ASAN_ENV = {"CAOVERIF_STACK_MB": "2048", "ASAN_OPTIONS": "detect_leaks=1:abort_on_error=0:halt_on_error=1"}


def asan(engine, quick, thorough, leaks=True, **kw):
    """the same engine and oracles rebuilt with AddressSanitizer (one sanitizer family per build).
    leaks=False where the harness' own reference interpreter shares the process: its closures are reference-counted
    cycles, which LeakSanitizer would report against the harness, not against cao-lang"""
    env = dict(ASAN_ENV)
    if not leaks:
        env["ASAN_OPTIONS"] = env["ASAN_OPTIONS"].replace("detect_leaks=1", "detect_leaks=0")
    d = {"engine": engine, "profile": "asan", "cases": {"quick": quick, "thorough": thorough}, "primary": False, "env": env, "stall_s": 120}
    d.update(kw)
    return d


def miri(engine, quick, thorough, **kw):
    """the same engine and oracles interpreted by Miri (Tree Borrows): uninitialised reads, out-of-bounds inside an
    allocation, misalignment, invalid values, double drops that red-zone tools do not see"""
    d = {"engine": engine, "profile": "miri", "cases": {"quick": quick, "thorough": thorough}, "primary": False, "stall_s": 1500,
         "timeout_s": {"quick": 1800, "thorough": 7200}, "max_restarts": 3, "optional": True}
    d.update(kw)
    return d

HIST_TECH = "runtime monitoring: seeded operation histories executed against the real collection and an executable reference model in lock-step, full-state comparison after every operation, drop-count registry"

CHECKS = {
    "C12": {
        "level": "exploration",
        "level_text": "Held on the sampled histories only: every public observation (get/get_mut/contains/len/is_empty/iter/entry/remove results, *_with_hint forms) is compared with a BTreeMap after every operation, every key and value carries a unique id counted at drop, and for a quarter of the proxy-allocator histories each single allocation of the history is failed in turn. Sampling with engineered collisions is the right level for a 550-line unsafe table: the defects it had (ghost buckets, stale entry slot, reserved hash, failed-grow states) all show within a few operations once colliding keys and growth steps are forced.",
        "level_note": "Trusted: std BTreeMap as model, the harness replica of the FNV hash (cross-checked against CaoHashMap::insert at start-up), the drop registry. Not judged: Clone under allocation failure. A hang without logical evidence is inconclusive.",
        "technique": HIST_TECH + ", allocation failure injected at each allocation index; the same histories under AddressSanitizer and under Miri (Tree Borrows)",
        "rule": HIST_RULE,
        "engines": [
            {"engine": "hashmap", "profile": "dev", "cases": {"quick": 4000, "thorough": 40000}, "primary": True},
            {"engine": "hashmap", "profile": "release", "cases": {"quick": 0, "thorough": 20000}, "primary": False},
            asan("hashmap", 320, 8000),
            miri("hashmap", 1, 40),
        ],
        "hard_floor": {"evaluations": 100, "counters": {"ops_compared": 1000}},
        "targets": {
            "quick": {"ops_compared": 100000, "removals_with_colliding_neighbour": 2000, "entry_calls_that_grew": 500, "alloc_points_failed": 2000},
            "thorough": {"ops_compared": 1000000, "removals_with_colliding_neighbour": 10000, "entry_calls_that_grew": 2000, "alloc_points_failed": 20000},
        },
        "assumptions": [
            "the reference model is std::collections::BTreeMap",
            "Clone is not judged under allocation failure (the trait cannot report one)",
            "a hang without logical evidence (no empty slot) is inconclusive, not a violation",
        ],
    },
    "C13": {
        "level": "exploration",
        "level_text": "Held on the sampled histories only: all public observations of HandleTable compared with a BTreeMap after every operation over handle sets engineered to share home slots and wrap around, initial capacities 0..40, both allocators; termination is decided logically (a table left with len == capacity is reported before the endless probe is run) and by an isolated re-run for anything the logical guard does not foresee.",
        "level_note": "Trusted: std BTreeMap as model, bytemuck cast to build raw handles, the drop registry. entry() and clone() are not judged under allocation failure (no Result).",
        "technique": HIST_TECH + ", logical termination guard; the same histories under AddressSanitizer and under Miri (Tree Borrows)",
        "rule": HIST_RULE,
        "hang_is_violation": True,
        "engines": [
            {"engine": "handletable", "profile": "dev", "cases": {"quick": 4000, "thorough": 40000}, "primary": True},
            {"engine": "handletable", "profile": "release", "cases": {"quick": 0, "thorough": 20000}, "primary": False},
            asan("handletable", 320, 8000),
            miri("handletable", 1, 40),
        ],
        "hard_floor": {"evaluations": 100, "counters": {"ops_compared": 1000}},
        "targets": {
            "quick": {"ops_compared": 100000, "removals_with_colliding_neighbour": 1000, "histories_with_gt16_entry_inserts": 100},
            "thorough": {"ops_compared": 1000000, "removals_with_colliding_neighbour": 5000, "histories_with_gt16_entry_inserts": 1000},
        },
        "assumptions": [
            "the reference model is std::collections::BTreeMap keyed by the raw handle value",
            "entry() and clone() are not judged under allocation failure (their signatures cannot report one)",
        ],
    },
    "C14": {
        "level": "exploration",
        "level_text": "Held on the sampled histories only: every result and the full content of ValueStack and BoundedStack compared with a Vec after every operation, capacities 1..12 and 255..257, walks hovering at empty and at full; BoundedStack elements counted at drop.",
        "level_note": "Trusted: Vec as model. Push with exactly one free slot (value stack) may succeed or fail; clear_until's return value and truncation above the current height are not judged.",
        "technique": HIST_TECH + "; set-at-height compared with push on an equal probe stack; the same histories under AddressSanitizer and under Miri (Tree Borrows)",
        "rule": HIST_RULE,
        "engines": [
            {"engine": "stacks", "profile": "dev", "cases": {"quick": 6000, "thorough": 80000}, "primary": True},
            {"engine": "stacks", "profile": "release", "cases": {"quick": 0, "thorough": 40000}, "primary": False},
            asan("stacks", 320, 8000),
            miri("stacks", 1, 40),
        ],
        "hard_floor": {"evaluations": 100, "counters": {"ops_compared": 1000}},
        "targets": {"quick": {"ops_compared": 100000}, "thorough": {"ops_compared": 1000000}},
        "assumptions": [
            "push with exactly one free slot may succeed or fail (the statement only requires success with two free slots)",
            "the value returned by clear_until and truncation to a height above the current one are not judged",
        ],
    },
    "C16": {
        "level": "exploration",
        "level_text": "Held on the sampled edit histories only: modules containing every card kind (all 43 enumerated in the first function, random nesting to depth 4) are edited through the public index API with valid and invalid indices (one past the end, too deep, into leaves, missing function, empty index, lhs == rhs, ancestor/descendant pairs); after every edit the module is compared card-id by card-id with an independently written tree model, child enumeration/count/lookup are cross-checked for every card, and walk_cards is checked to visit each card once with an index that looks up to it.",
        "level_note": "Trusted: the harness' own table of child slots per card kind (written from the CardBody doc comments) and the documented insert semantics (list kinds insert, fixed-slot kinds replace). For fixed slots 'remove' is only required to return the card and keep the slot (the reset-to-default card is not compared). swap(x, x) may succeed or fail but must not change the module.",
        "technique": "runtime monitoring: seeded edit histories against an executable tree-edit model, full module comparison by card identity after every edit, law checks (insert/remove, replace/replace-back, swap/swap)",
        "rule": "seeded modules (every card kind) and edit histories; distinct by JSON hash of the case; non-trivial when the history has >= 8 edits and ran to the end",
        "engines": [
            {"engine": "module", "profile": "dev", "cases": {"quick": 2000, "thorough": 60000}, "primary": True},
        ],
        "hard_floor": {"evaluations": 100, "counters": {"edits_compared": 1000}},
        "targets": {"quick": {"edits_compared": 100000, "failing_edits_checked_for_noop": 5000, "law:.*": 3000},
                    "thorough": {"edits_compared": 2000000, "failing_edits_checked_for_noop": 100000, "law:.*": 100000}},
        "assumptions": ["child slot layout per card kind as documented in card.rs", "card identity is Card.id"],
    },
    "C01": {
        "level": "exploration",
        "level_text": "Held on the sampled programs only: seeded generator of well-scoped programs (class W, DESIGN.md 5.1: literals incl. i64 extremes and 300-byte strings, all arithmetic/comparison/boolean cards over mixed operand kinds, locals/globals, if/else, while, repeat, for-each, early return, static and dynamic calls with 0-3 parameters, sub-module calls, host functions incl. ones re-entering the VM); each program is compiled and run in the real VM and interpreted by an independent reference interpreter (refsem.rs, shares no code with compiler/VM); final globals read by name, the host-call log with deep-copied arguments, and the success/error kind must agree. Cases whose meaning the card language does not fix are dropped and counted, never judged.",
        "level_note": "Trusted: the reference interpreter (written from the property statements and CardBody doc comments, decisions listed in DESIGN.md appendix A), the deep value snapshot. Resource errors are only judged when the reference needs far less than the limits. Collections are suppressed (next_gc = max) so that C01 is independent of C02.",
        "technique": "runtime monitoring: differential execution of generated well-scoped programs against an independent reference interpreter, comparing observable outcome (globals, host-call log, result kind)",
        "rule": "seeded structure-aware generator (case idx -> PRNG seed) producing programs that are well-scoped by construction; distinct by JSON hash; non-trivial when the VM executed >= 25 instructions and the program ran >= 2 loops/calls and both executions agreed",
        "engines": [
            {"engine": "prog", "profile": "dev", "cases": {"quick": 4000, "thorough": 60000}, "primary": True},
            {"engine": "prog", "profile": "release", "cases": {"quick": 0, "thorough": 60000}, "primary": False},
        ],
        "hard_floor": {"evaluations": 100, "counters": {"vm_instructions": 10000}},
        "targets": {"quick": {"card:.*": 100000, "feat:call-from-callee": 1000, "programs_with_native_reentry": 200},
                    "thorough": {"card:.*": 5000000, "feat:call-from-callee": 50000, "programs_with_native_reentry": 10000}},
        "assumptions": ["reference semantics decisions of DESIGN.md appendix A", "host functions are the harness natives (log1-3, id1, in0-2, apply0-2, fail, pair, concat)"],
    },
    "C06": {
        "level": "exploration",
        "level_text": "Held on the sampled programs only: as C01 with closures on. Half of the cases are random programs with closure creation/calls (nesting to depth 2, captures of locals, parameters, loop variables, captured assignment), half are parametrised scenarios that force the situations the statement names: closure created at non-zero frame offset behind 0-3 wrapper frames, counters, sibling closures sharing a variable while the scope is alive, per-iteration capture in repeat/for-each, capture of a capture, the same card position in two modules, shadowed names, closures passed to a host function that re-enters the VM. The reference interpreter implements by-reference capture with shared cells and a fresh scope per loop iteration.",
        "level_note": "Trusted: the reference interpreter's cell semantics (DESIGN.md appendix A6/A7). Strict programs only (no statement-level left-over values above captured locals).",
        "technique": "runtime monitoring: differential execution of generated closure programs against an independent reference interpreter with by-reference capture cells; the same programs under AddressSanitizer",
        "rule": "seeded random closure programs + 9 parametrised scenario templates; distinct by JSON hash; non-trivial as in C01",
        "engines": [
            {"engine": "prog-closures", "profile": "dev", "cases": {"quick": 4000, "thorough": 100000}, "primary": True},
            {"engine": "prog-closures", "profile": "release", "cases": {"quick": 0, "thorough": 100000}, "primary": False},
            asan("prog-closures", 160, 8000, leaks=False),
            # captured variables outlive their scope: the closure programs under forced collections (heap audit + self-differential)
            {"engine": "gc", "profile": "dev", "cases": {"quick": 150, "thorough": 6000}, "primary": False, "args": {"source": "closures", "max-singles": 150}},
        ],
        "hard_floor": {"evaluations": 100, "counters": {"feat:closure-created": 1000}},
        "targets": {"quick": {"feat:closure-created-in-callee": 5000, "feat:upvalue-read": 20000, "feat:upvalue-write": 5000, "scenario:same-card-position-in-two-modules": 300, "scenario:per-iteration-capture": 300, "scenario:shared-siblings": 300},
                    "thorough": {"feat:closure-created-in-callee": 200000, "feat:upvalue-read": 1000000, "feat:upvalue-write": 200000}},
        "assumptions": ["reference semantics decisions of DESIGN.md appendix A"],
    },
    "C04": {
        "level": "exploration",
        "level_text": "Held on the sampled inputs only: (A) arbitrary, not well-scoped modules (random card trees of all 43 kinds, odd/empty/reserved names, wrong arities, junk imports, sub-module trees up to and over the recursion limit, 255+ locals, up to 80 globals, 250 upvalues, 400 functions, 3000-card bodies, expression/statement nesting to depth 120) optionally round-tripped through the real JSON and YAML loaders, then compiled; (B) well-scoped hostile programs (self-referencing tables compared/hashed/printed, unbounded recursion incl. through host re-entry, reserved-hash keys, allocation loops, wrong-type operands of every card, failing and missing natives, library calls on odd inputs, random ill-typed programs) run with value/call stack sizes 1..256, memory limits 64 B..16 MiB, budgets 0..100000, collections on or off, then cleared and run again. Oracles: catch_unwind (panic location), worker exit status/signal (abort, native stack overflow), stall watchdog with isolated re-run.",
        "level_note": "Trusted: process-level monitors. A hang is only a violation when the single case re-run alone still does not finish within 60 s (comparable cases take milliseconds). dev profile (debug assertions and overflow checks on) in quick, dev + release in thorough.",
        "technique": "runtime monitoring: crash/panic/abort/stack-overflow/hang monitors around isolated workers driven by hostile generated inputs; per-dispatch instruction counter against the budget; the same inputs under AddressSanitizer",
        "rule": "seeded hostile inputs; distinct by JSON hash; every completed case is non-trivial (it exercised compile and, for run cases, the VM under the stated limits)",
        "hang_is_violation": True,
        "engines": [
            {"engine": "total", "profile": "dev", "cases": {"quick": 6000, "thorough": 40000}, "primary": True, "max_restarts": 200},
            {"engine": "total", "profile": "release", "cases": {"quick": 0, "thorough": 25000}, "primary": False, "max_restarts": 200},
            asan("total", 320, 8000, max_restarts=200),
        ],
        "hard_floor": {"evaluations": 100, "counters": {"compile:.*": 100, "run:.*": 100}},
        "targets": {"quick": {"compile:Err:.*": 1000, "compile:Ok": 1000, "run:Err:.*": 1000, "loaded:json": 500, "loaded:yaml": 500},
                    "thorough": {"compile:Err:.*": 50000, "compile:Ok": 50000, "run:Err:.*": 50000}},
        "assumptions": ["the input domain of compile is whatever the serde JSON/YAML loaders admit", "host functions terminate"],
    },
    "C08": {
        "level": "exploration",
        "level_text": "Held on the sampled module trees only: trees of depth 0-4 (and at/over the recursion limit) with 0-4 functions per module drawn from a 4-name pool (so the same name exists in several modules, and as module and function name), import lists mixing function, module and super. imports (valid, dangling, dot-less, ambiguous), call sites of every form (absolute, relative, via function import, via module import, junk) as static calls and as function values called dynamically. Every function logs a unique tag and all its parameters, callers log a local before/after the call and the returned value, so the host-call log shows which body ran, with which arguments, and that caller locals survived. A reference resolver (4 documented steps) decides accept/reject and the reference interpreter decides the expected log.",
        "level_note": "Trusted: the reference resolver (refsem.rs resolve_name) and the list of rejection rules in e_resolve.rs. Modules where an import path designates different things when read as absolute vs relative are not judged. For several simultaneous faults any of the corresponding error kinds is accepted.",
        "technique": "runtime monitoring: tagged function bodies + host-call log compared with a reference resolver / reference interpreter over generated module trees",
        "rule": "seeded module trees; distinct by JSON hash; non-trivial when accepted and >= 3 host calls were compared, or rejected with an expected error kind",
        "engines": [
            {"engine": "resolve", "profile": "dev", "cases": {"quick": 3000, "thorough": 80000}, "primary": True},
        ],
        "hard_floor": {"evaluations": 100, "counters": {"bodies_run": 1000}},
        "targets": {"quick": {"site:absolute": 2000, "site:relative": 2000, "site:function-import": 500, "site:module-import": 200, "rejected:.*": 2000},
                    "thorough": {"site:function-import": 20000, "site:module-import": 10000, "rejected:.*": 100000}},
        "assumptions": ["resolution order: absolute path, caller module, function imports, module-prefix imports (super. walks up)"],
    },
    "C02": {
        "level": "fault_enumeration",
        "level_text": "For every generated program the collector is injected, through the allocator hook, at every allocation, at each single allocation index (exhaustively when the program has <= 400 allocation points, which is nearly always), at every 2nd/3rd/5th allocation and at 12 random subsets; after every instruction during which a collection ran a heap audit walks value stack, globals, call frames, the open-upvalue list, table keys/values, closure upvalues and captured values and checks that nothing reachable was swept (swept blocks are quarantined, so they are recognised by address without reading them), that open upvalues point into the live stack, that tables' key list and hash part agree, and that no released block was written; the observable outcome of every scheduled run is compared with the run without collections. The same programs and schedules run under AddressSanitizer (no quarantine) to catch transient reads of freed objects that leave no dangling edge. Programs: random closure/table/stdlib programs, closure scenarios, and allocation-heavy templates (table growth, rows, nested tables, temporaries on the stack, temporary closures called at once, library callbacks that allocate, host functions that allocate and re-enter).",
        "level_note": "Trusted: the audit walker and the quarantine/checksum hook; the harness' host functions are written the way a host would write them (results guarded, arguments just used). OutOfMemory outcomes are not compared across schedules. Stacked/Tree Borrows are out of scope.",
        "technique": "runtime monitoring with fault injection: forced collections enumerated over allocation points, heap-reachability audit at hooks, released-memory checksums, self-differential outcome, AddressSanitizer",
        "rule": "seeded programs x enumerated GC schedules; evaluations = programs; distinct by JSON hash of program+inputs; non-trivial when the program has >= 5 allocation points and all schedules agreed",
        "engines": [
            {"engine": "gc", "profile": "dev", "cases": {"quick": 1500, "thorough": 25000}, "primary": True},
            {"engine": "gc", "profile": "asan", "cases": {"quick": 50, "thorough": 4000}, "primary": False, "args": {"sanitizer": 1, "max-singles": 32},
             "env": {"CAOVERIF_STACK_MB": "2048", "ASAN_OPTIONS": "detect_leaks=1:abort_on_error=0:halt_on_error=1"}, "stall_s": 120},
        ],
        "hard_floor": {"evaluations": 100, "counters": {"collections": 1000, "audits": 1000}},
        "targets": {"quick": {"scheduled_runs": 300000, "gc_during:AppendTable": 500, "gc_during:SetProperty": 200, "gc_during:NthRow": 100, "gc_during:CallNative": 20000, "gc_during:RegisterUpvalue": 5000, "gc_during:Closure": 5000},
                    "thorough": {"scheduled_runs": 8000000}},
        "assumptions": ["a collection can only start inside CaoLangAllocator::alloc (the hook sits exactly where the stock threshold check is)"],
    },
    "C10": {
        "level": "translation_validation",
        "level_text": "Every program the compiler returns during the run - from the well-scoped generators, the closure and GC scenarios, the module-tree generator and the hostile/arbitrary (not well-scoped) generator - is validated in full, not only along the executed path, by a verifier written from the Instruction doc comments: linear decode from offset 0 with known opcodes and complete operands ending in Exit; every Goto/GotoIfTrue/GotoIfFalse operand and every label on an instruction start; every FunctionPointer/Closure handle present in the labels; every string operand a complete valid UTF-8 length-prefixed string inside the data section; local/upvalue indices < 255, RegisterUpvalue flag in {0,1}; global ids < number of variables and ids/names a bijection consistent with variable_id(); every trace key an instruction start and every instruction other than Pop/CloseUpvalue with a trace entry. The verifier's opcode/width table is compared with the crate's at start-up and its instruction starts with disassemble_string per program.",
        "level_note": "Trusted: the verifier's own opcode table (cross-checked, a disagreement is reported as a violation of the self-check). Validation is per output of this run: it says nothing about modules the generators do not produce.",
        "technique": "runtime monitoring / translation validation: every compiler output of the run is decoded and checked in full by an independent bytecode verifier",
        "rule": "modules from all generators of the harness; evaluations = modules generated, programs = those that compiled and were validated; non-trivial when the bytecode is longer than 40 bytes",
        "engines": [
            {"engine": "bytecode", "profile": "dev", "cases": {"quick": 5000, "thorough": 150000}, "primary": True},
        ],
        "hard_floor": {"evaluations": 100, "counters": {"programs_validated": 500, "instructions_checked": 10000}},
        "targets": {"quick": {"op:.*": 1000000, "op:Closure": 1000, "op:RegisterUpvalue": 1000, "op:ForEach": 1000, "op:GotoIfFalse": 1000, "labels_checked": 100000},
                    "thorough": {"op:.*": 30000000}},
        "assumptions": ["structural validity as listed in the property statement"],
    },
    "C03": {
        "level": "exploration",
        "level_text": "Held on the sampled (program, budget) pairs only: a hook in the dispatch loop counts every instruction at every nesting level; for each program the instruction need is measured under a large budget, then the program is re-run with budgets 1,2,3,10,50, three random ones and need-1, need, need+1, need+2, 2*need+1. The monitor reports (and stops the run, leaving an EVIDENCE note that survives a watchdog kill) the moment the counter passes the budget; a budget below the need must end in Timeout (possibly wrapped by the native that re-entered), a budget above it must leave result, host-call log and globals unchanged. 40% of the programs do not terminate on their own: endless loops, unbounded (mutual, dynamic, closure) recursion, endless or long key functions run by sorted/min/max, endless loops two and three host re-entries deep. 'Terminates' is decided as bounded progress: the run returns after at most N dispatches; host functions are assumed to terminate.",
        "level_note": "Trusted: the dispatch hook sits at the single decode point of Vm::_run. The interpreter executes N-1 instructions for budget N; the property only requires <= N.",
        "technique": "runtime monitoring: per-dispatch instruction counter checked against the budget online, self-differential across budgets",
        "rule": "seeded programs (40% non-terminating templates) x enumerated budgets; evaluations = programs; non-trivial when all budgets were judged",
        "engines": [
            {"engine": "budget", "profile": "dev", "cases": {"quick": 2500, "thorough": 40000}, "primary": True},
            {"engine": "budget", "profile": "release", "cases": {"quick": 0, "thorough": 30000}, "primary": False},
        ],
        "hard_floor": {"evaluations": 100, "counters": {"runs_ending_in_Timeout": 200, "budgeted_runs": 1000}},
        "targets": {"quick": {"runs_ending_in_Timeout": 20000, "runs_with_reentry_depth>=2": 2000, "budgets_around_need": 5000, "runs_with_sufficient_budget": 20000},
                    "thorough": {"runs_ending_in_Timeout": 500000, "runs_with_reentry_depth>=2": 50000}},
        "assumptions": ["host functions terminate on their own", "budget N >= 1 (0 is exercised by C04)"],
    },
    "C05": {
        "level": "exploration",
        "level_text": "Held on the sampled histories only: the allocator hook logs every allocation (index, size, alignment, address, granted or not, counter and limit after the call), every release and the begin/end of every collection; an offline checker replays the log into an address->charge ledger and requires, after every event, counter == sum of outstanding charges (allowing for the one request that is charged but not yet logged while a collection runs inside alloc), counter <= limit, no release of an unknown address, refund == charge, and an empty ledger and a zero counter after every clear. Workloads: churn programs with bounded live data and 10x-200x the limit in garbage (strings, tables, closures, rows, library results) that must complete; growth programs that must end in OutOfMemory; failing programs; random programs; limits 4 KiB..1 MiB; histories of 2..320 runs with clear. After a run that ended in OutOfMemory a full collection is forced and the run is a violation when a churn program's reachable bytes + failed request + 25% slack fit in the limit.",
        "level_note": "Accounted = what goes through the allocator proxy (the quantifier of the property); the keys Vec of a table and the upvalues Vec of a closure live in the global allocator and are not accounted - observation only. Trusted: the ledger checker and the event log hook.",
        "technique": "runtime monitoring: offline allocation-ledger checker over hook event logs, forced collection after OutOfMemory, churn/growth workloads with known answers (live data calibrated to 60 % of the limit); AddressSanitizer/LeakSanitizer build",
        "rule": "seeded run/clear histories over program pools; evaluations = histories; non-trivial when the whole history was checked",
        "engines": [
            {"engine": "lifecycle", "profile": "dev", "cases": {"quick": 400, "thorough": 5000}, "primary": True, "args": {"property": "c05"}},
            asan("lifecycle", 24, 1500, args={"property": "c05", "light": 1}),
        ],
        "hard_floor": {"evaluations": 100, "counters": {"ledger_events": 100000, "collections": 100}},
        "targets": {"quick": {"ledger_events": 1000000, "oom_genuine": 200, "churn_runs_completed": 2000, "clears_checked": 20000},
                    "thorough": {"ledger_events": 30000000}},
        "assumptions": ["25% slack when judging a spurious OutOfMemory"],
    },
    "C17": {
        "level": "exploration",
        "level_text": "Held on the sampled histories only: pools of 1-4 programs (allocation-heavy, closure, random, and ones ending in Timeout, OutOfMemory, value-stack overflow, call-stack overflow, a host error, an error inside a nested host re-entry) are run in histories of 2..320 steps on one VM with stock collection thresholds and limits 4 KiB..1 MiB. Cleared mode: the VM is cleared before every run and the run is compared with the same program on a newly created VM: result kind, host-call log, globals by name, number of instructions dispatched and accounted memory after the run must agree. Repeat mode: one program is run n times (n up to 300, crossing 256) without clear and every run must equal the first.",
        "level_note": "Trusted: the fresh-VM twin. Repeat mode is only judged for programs whose first run succeeds (stack-balanced).",
        "technique": "runtime monitoring: run histories on one VM against a fresh-VM twin executed in lock-step on a newly created thread; re-runs inside a history compared with the first; AddressSanitizer/LeakSanitizer build",
        "rule": "seeded run/clear histories over program pools; evaluations = histories; non-trivial when the whole history was compared",
        "engines": [
            {"engine": "lifecycle", "profile": "dev", "cases": {"quick": 400, "thorough": 5000}, "primary": True, "args": {"property": "c17"}},
            asan("lifecycle", 24, 1500, args={"property": "c17", "light": 1}),
        ],
        "hard_floor": {"evaluations": 100, "counters": {"runs": 2000}},
        "targets": {"quick": {"runs": 100000, "histories_longer_than_256": 300, "failed_run_followed_by_comparison": 5000},
                    "thorough": {"runs": 3000000}},
        "assumptions": ["the same registered host functions on both VMs"],
    },
    "C15": {
        "level": "exploration",
        "level_text": "Held on the sampled planted faults only: a fault card of known identity (missing/failing native, property access on int/nil, pop on int, Get with negative / non-integer index / non-table, call of int/string, unset global, SetProperty/AppendTable/ForEach/shorthand write on a non-table; Timeout and OutOfMemory subtrees; unknown function in Call/Function, empty name in SetVar/ReadVar/SetGlobalVar) is embedded in one of 23 contexts (every operand/condition/argument/body slot of add, if, ifelse, while, repeat, callnative, dynamic call, not, len, equals, setvar, setglobal, composite) at the end of a chain of 0-4 static or dynamic calls that themselves sit in different slots, with frames in the root and a sub-module. trace[0] must resolve (namespace -> lookup_submodule -> get_card) to the planted card (any card of the subtree for resource faults) and carry the right namespace; the call cards of the chain must appear in trace[1..] in order, innermost first, each with the namespace of its function; for compile faults the error's loc must resolve to the offending card.",
        "level_note": "Frames pushed by host re-entry and the program entry have no call card: trace entries that are not chain call cards are skipped (sub-sequence match). Trusted: card identity by Card.id, which the harness records when it builds the program.",
        "technique": "runtime monitoring: planted faults with known location, error traces resolved through the module API; direct recursion below the fault and into the call-stack limit",
        "rule": "seeded planted-fault programs; distinct by seed; every judged case is non-trivial",
        "engines": [
            {"engine": "trace", "profile": "dev", "cases": {"quick": 3000, "thorough": 80000}, "primary": True},
        ],
        "hard_floor": {"evaluations": 100, "counters": {"fault:.*": 1000}},
        "targets": {"quick": {"context:.*": 40000, "faults_at_depth>=2": 10000, "faults_with_submodule_frames": 5000, "compile_errors_located": 2000, "chain_entries_checked": 50000},
                    "thorough": {"context:.*": 1000000}},
        "assumptions": ["trace entries for frames pushed by run_function are not call cards and are skipped"],
    },
    "C19": {
        "level": "exploration",
        "level_text": "Held on the sampled value pools only: pools of 30-46 values per case (boundary integers up to i64::MIN/MAX, reals incl. +-0.0, NaN, +-inf and 2^53, strings of equal length/different text, nested tables to depth 3 with equal content in distinct objects and in reversed insertion order, function and native function values) are built in a VM; all ordered pairs and 400-2000 triples per pool are checked: reflexivity, symmetry, transitivity and content-equality of == on the judged class (nil, integers, non-NaN reals, strings, acyclic tables of those), equal => same hash (signed zero excepted), equal => neither less nor greater, < asymmetric and implying <=, numeric order of int/real/nil(0)/string(length)/table(length) against a number for magnitudes <= 2^53, two strings / two tables ordered by length (equal length and different content unordered), an equal key in a distinct object finds a table entry, and ==, <, hash, truthiness terminate without panic on every value of the pool.",
        "level_note": "Not judged (documented exceptions / not in the statement's class): NaN, hash of +-0.0, function values and tables containing them, int/real comparison beyond 2^53.",
        "technique": "runtime monitoring: algebraic-law monitor over generated value pools (all pairs, sampled triples)",
        "rule": "seeded value pools; distinct by JSON hash; every pool is non-trivial (>= 900 pairs)",
        "engines": [
            {"engine": "laws", "profile": "dev", "cases": {"quick": 400, "thorough": 10000}, "primary": True},
            {"engine": "laws", "profile": "release", "cases": {"quick": 0, "thorough": 10000}, "primary": False},
        ],
        "hard_floor": {"evaluations": 100, "counters": {"pairs": 50000}},
        "targets": {"quick": {"pairs": 5000000, "triples": 1000000, "numeric_order_pairs": 500000, "length_order_pairs": 200000, "equal_key_lookups": 20000},
                    "thorough": {"pairs": 200000000}},
        "assumptions": ["content equality of tables is order sensitive", "hashing judged through std's DefaultHasher (equal byte streams hash equally under any hasher)"],
    },
    "C07": {
        "level": "exploration",
        "level_text": "Held on the sampled histories only: histories of set/get/remove/append/pop/len/nth-key/row/for-each over 1-3 tables with few keys (integers 0..6 and around len, strings incl. one whose hash is the reserved 0, finite non-zero reals, nil, i64 extremes) so that overwrite, collision, growth (8->12->18->27 slots), append skipping used integer keys and get/append after pop occur constantly. Host mode: every operation goes through the public CaoLangTable API with a fresh string object per lookup; after every operation all tables are compared with an ordered-map model (key order, hash-part size, iteration). Script mode: the history becomes a program that reaches every table through a second variable, a table field and a captured variable, logs every result, and is judged against the reference interpreter.",
        "level_note": "Out-of-range row access, mutation during iteration and table/function/NaN/-0.0 keys are unspecified and not judged. Trusted: the ordered-map model (host mode), the reference interpreter (script mode).",
        "technique": "runtime monitoring: operation histories against an executable ordered-map model (host API) and against the reference interpreter (scripts), full-state comparison after every operation; host histories on small heaps with failing inserts; AddressSanitizer build",
        "rule": "seeded table histories, half judged through the host API and half as scripts; distinct by JSON hash; non-trivial with >= 10 operations",
        "engines": [
            {"engine": "table", "profile": "dev", "cases": {"quick": 3000, "thorough": 80000}, "primary": True},
            {"engine": "table", "profile": "release", "cases": {"quick": 0, "thorough": 40000}, "primary": False},
            asan("table", 160, 6000, leaks=False),
        ],
        "hard_floor": {"evaluations": 100, "counters": {"ops_compared": 10000}},
        "targets": {"quick": {"ops_compared": 500000, "get_after_pop": 10000, "append_after_pop": 10000, "aliased_table_stored": 5000, "histories:script": 10000},
                    "thorough": {"ops_compared": 20000000}},
        "assumptions": ["append = smallest unused integer key >= len; pop = remove the most recently inserted entry"],
    },
    "C09": {
        "level": "exploration",
        "level_text": "Held on the sampled calls only: each case builds a table (size 0,1,2 or 3-20; integer / string / mixed keys; values from tiny pools so that ties dominate; mixed int/real, strings of distinct lengths, numbers with nil) and calls one of the ten library functions on it with a callback / key function (predicate on value, on key, on index; identity; allocating; capturing and counting; constant key for first-of-ties and stability) given as closure or named function, from main, from a nested frame with its own locals, through a function import, or feeding another library call; sometimes the input is not a table. Input before and after, result and the captured counter are logged and compared with the executable specification (reference interpreter std_inner, written from the statement).",
        "level_note": "Cases with incomparable ordering keys (NaN, equal-length different strings, mixed string/table) are unspecified and skipped. Trusted: the specification in refsem.rs.",
        "technique": "runtime monitoring: executable specification of the library functions over generated inputs and callbacks; the same programs under forced collections with heap audit and self-differential outcome",
        "rule": "seeded library-call programs; distinct by JSON hash; non-trivial when judged (not skipped)",
        "engines": [
            {"engine": "stdlib", "profile": "dev", "cases": {"quick": 4000, "thorough": 100000}, "primary": True},
            {"engine": "stdlib", "profile": "release", "cases": {"quick": 0, "thorough": 50000}, "primary": False},
            # the library under forced collections (heap audit + self-differential): callbacks and natives allocate
            {"engine": "gc", "profile": "dev", "cases": {"quick": 120, "thorough": 6000}, "primary": False, "args": {"source": "stdlib", "max-singles": 120}},
        ],
        "hard_floor": {"evaluations": 100, "counters": {"judged:.*": 1000}},
        "targets": {"quick": {"judged:std.filter": 2000, "judged:std.map": 2000, "judged:std.any": 2000, "judged:std.min": 2000, "judged:std.max": 2000, "judged:std.min_by_key": 2000, "judged:std.max_by_key": 2000, "judged:std.sorted": 2000, "judged:std.sorted_by_key": 2000, "judged:std.to_array": 2000},
                    "thorough": {"judged:.*": 1000000}},
        "assumptions": ["callback convention (key, value[, index]); key function convention (key, value)"],
    },
    "C11": {
        "level": "exploration",
        "level_text": "Held on the sampled artefacts only: (A) source modules from all generators (all 43 card kinds with optional fields present/absent, closures, module trees with imports, 0..300 globals and 0..120 extra functions) are written to JSON and YAML, read back, compiled, and the result is compared field by field (bytecode, data, sorted labels, sorted variable ids/names, sorted trace, version) with compiling the original; (B) every compiled program is written to JSON, CBOR and bincode, read back, compared field by field and run, and the run outcome is compared with running the original; (C) a generated value (nested tables to depth 4 with 0..200 entries, i64 extremes, reals, unicode strings) is converted to its owned form, written to JSON/CBOR/bincode, read back, inserted into another VM and deep-compared in order.",
        "level_note": "Modules containing non-finite floats are skipped for JSON/YAML (format limitation); serde_json is built with float_roundtrip. Trusted: the field-wise fingerprint and the deep value snapshot.",
        "technique": "runtime monitoring: round-trip equality and differential run across formats and sizes; insert_value under forced collections with heap audit",
        "rule": "seeded artefacts; distinct by JSON hash; every case performs module, program and value round trips",
        "engines": [
            {"engine": "serde", "profile": "dev", "cases": {"quick": 250, "thorough": 8000}, "primary": True},
        ],
        "hard_floor": {"evaluations": 100, "counters": {"program_roundtrips:.*": 300, "value_roundtrips:.*": 300}},
        "targets": {"quick": {"module_roundtrips:json": 2000, "module_roundtrips:yaml": 2000, "program_roundtrips:json": 1500, "program_roundtrips:cbor": 1500, "program_roundtrips:bincode": 1500, "value_roundtrips:.*": 6000},
                    "thorough": {"program_roundtrips:.*": 200000}},
        "assumptions": ["finite floats only in JSON/YAML"],
    },
    "C18": {
        "level": "exploration",
        "level_text": "Held on the sampled calls only: 18 host functions covering parameter types Value, i64, f64, bool, &str, &CaoLangTable, *mut CaoLangTable, Nilable<i64>, Nilable<&str> at arities 0-4 record what they receive; programs call 1-5 of them with arguments of every kind (nil, int, real, string, table, function) through a CallNative card, a native function value + dynamic call, or another host function that pushes the arguments and re-enters the VM, at call depth 0-3 with live locals. Kind-preserving conversions must be exact; for cross-kind numeric conversions either the operators' coercion or a well-formed rejection is accepted; a rejection must be TaskFailure{function name, InvalidArgument} whose message names a rejectable parameter; the returned value must become the call card's value; caller locals must survive; names starting with __ must be refused. Re-entry: a probe host function records value-stack height, call depth and the caller's part of the stack before pushing (a, b) and after run_function(f) for f = script function, function returning early from a loop, function that re-enters again, closure with a captured counter, native function value; the deltas must be 0, the result and the captured state as computed by construction.",
        "level_note": "Trusted: expectations computed by construction in e_host.rs (no reference interpreter involved).",
        "technique": "runtime monitoring: recording host functions + stack-height probes around run_function, expectations known by construction; host calls with temporary arguments under forced collections (heap audit, self-differential) and AddressSanitizer",
        "rule": "seeded host-call programs; distinct by seed; every judged case is non-trivial",
        "engines": [
            {"engine": "host", "profile": "dev", "cases": {"quick": 4000, "thorough": 100000}, "primary": True},
            asan("host", 160, 8000, leaks=False),
            # host calls with temporary arguments under forced collections (heap audit + self-differential)
            {"engine": "gc", "profile": "dev", "cases": {"quick": 200, "thorough": 8000}, "primary": False, "args": {"source": "host", "max-singles": 200}},
            asan("gc", 20, 1500, args={"source": "host", "sanitizer": 1, "max-singles": 32}),
        ],
        "hard_floor": {"evaluations": 100, "counters": {"typed_call_programs": 500, "reentries_checked": 500}},
        "targets": {"quick": {"conv:.*": 100000, "rejections_checked": 5000, "reentries_checked": 15000, "path:reentry:.*": 3000, "path:dynamic:.*": 10000},
                    "thorough": {"conv:.*": 3000000}},
        "assumptions": ["cross-kind numeric conversion: coercion or rejection both acceptable"],
    },
}
