//! C14: ValueStack and BoundedStack against Vec models.
use crate::e_hashmap::{reg_final_check, reg_reset, reg_take_errors, DV};
use crate::prng::Prng;
use crate::runner::{Engine, Obs, Tier, Verdict};
use cao_lang::collections::bounded_stack::BoundedStack;
use cao_lang::collections::value_stack::ValueStack;
use cao_lang::value::Value;
use serde::{Deserialize, Serialize};

#[derive(Debug, Clone, Serialize, Deserialize, PartialEq)]
pub enum Op {
    Push(i64),
    Pop,
    PopN(usize),
    PopWOffset(usize),
    Set(usize, i64),
    Get(usize),
    Last,
    PeekLast(usize),
    Clear,
    ClearUntil(usize),
    Iter,
    LastMut(i64),
    IterBackwards,
}

impl Op {
    fn name(&self) -> &'static str {
        match self {
            Op::Push(_) => "push",
            Op::Pop => "pop",
            Op::PopN(_) => "pop_n",
            Op::PopWOffset(_) => "pop_w_offset",
            Op::Set(..) => "set",
            Op::Get(_) => "get",
            Op::Last => "last",
            Op::PeekLast(_) => "peek_last",
            Op::Clear => "clear",
            Op::ClearUntil(_) => "clear_until",
            Op::Iter => "iter",
            Op::LastMut(_) => "last_mut",
            Op::IterBackwards => "iter_backwards",
        }
    }
}

#[derive(Debug, Clone, Serialize, Deserialize)]
pub struct Case {
    pub bounded: bool,
    pub cap: usize,
    pub ops: Vec<Op>,
}

#[derive(Default)]
pub struct StacksEngine {}

impl Engine for StacksEngine {
    type Case = Case;
    fn name(&self) -> &'static str {
        "stacks"
    }
    fn gen(&mut self, rng: &mut Prng, tier: Tier) -> Case {
        let bounded = rng.chance(1, 2);
        let cap = match rng.below(8) {
            0 => 1,
            1 => 2,
            2 => 3,
            3 => rng.range(4, 8) as usize,
            4 => 255,
            5 => 256,
            6 => 257,
            _ => rng.range(1, 12) as usize,
        };
        let n = rng.range(5, if cfg!(miri) { 25 } else if tier == Tier::Quick { 150 } else { 400 }) as usize;
        // mode: hover near empty, hover near full, random walk
        let mode = rng.below(3);
        let mut ops = Vec::new();
        let mut height = 0usize; // rough estimate to steer the walk
        if mode == 1 && cap > 16 {
            // fill quickly to get near the top
            let fill = cap.saturating_sub(rng.range(0, 4) as usize);
            for i in 0..fill {
                ops.push(Op::Push(i as i64));
            }
            height = fill;
        }
        for _ in 0..n {
            let push_w = match mode {
                0 => 10,
                1 => 30,
                _ => 18,
            };
            let pop_w = match mode {
                0 => 14,
                1 => 10,
                _ => 12,
            };
            let idx = |rng: &mut Prng, h: usize| -> usize {
                match rng.below(5) {
                    0 => h,
                    1 => h.saturating_sub(1),
                    2 => h + 1,
                    3 => rng.below(h.max(1) + 2),
                    _ => 0,
                }
            };
            let op = if bounded {
                match rng.weighted(&[push_w, pop_w, 3, 2, 2, 2, 1]) {
                    0 => Op::Push(rng.range(-99, 99)),
                    1 => Op::Pop,
                    2 => Op::Last,
                    3 => Op::LastMut(rng.range(-99, 99)),
                    4 => Op::Iter,
                    5 => Op::IterBackwards,
                    _ => Op::Clear,
                }
            } else {
                match rng.weighted(&[push_w, pop_w, 4, 4, 6, 5, 3, 4, 1, 3, 2]) {
                    0 => Op::Push(rng.range(-99, 99)),
                    1 => Op::Pop,
                    2 => Op::PopN(*rng.pick(&[1usize, 2, 3, 8])),
                    3 => Op::PopWOffset(idx(rng, height)),
                    4 => Op::Set(idx(rng, height), rng.range(-99, 99)),
                    5 => Op::Get(idx(rng, height)),
                    6 => Op::Last,
                    7 => Op::PeekLast(rng.below(4)),
                    8 => Op::Clear,
                    9 => Op::ClearUntil(idx(rng, height).min(height)),
                    _ => Op::Iter,
                }
            };
            match &op {
                Op::Push(_) => height = (height + 1).min(cap),
                Op::Pop => height = height.saturating_sub(1),
                Op::PopN(n) => height = height.saturating_sub(*n),
                Op::Clear => height = 0,
                Op::ClearUntil(i) => height = (*i).min(height),
                _ => {}
            }
            ops.push(op);
        }
        Case { bounded, cap, ops }
    }

    fn run(&mut self, case: &Case, obs: &mut Obs) -> Verdict {
        if case.bounded {
            // element types without drop glue take other paths through clear / Drop
            if let Err((what, d)) = crate::plain::bounded_plain(case.ops.len() as u64 * 7919 + case.cap as u64, obs) {
                return Verdict::violation(format!("C14:bounded:{what}"), d);
            }
        }
        if case.bounded {
            run_bounded(case, obs)
        } else {
            run_value(case, obs)
        }
    }

    fn shrink(&self, case: &Case) -> Vec<Case> {
        let mut out = Vec::new();
        let n = case.ops.len();
        let mut chunk = n / 2;
        while chunk >= 1 {
            let mut start = 0;
            while start < n {
                let mut c = case.clone();
                let end = (start + chunk).min(n);
                c.ops.drain(start..end);
                out.push(c);
                start += chunk;
            }
            if chunk == 1 {
                break;
            }
            chunk /= 2;
        }
        out
    }
}

fn viol(kind: &str, op: &str, what: &str, detail: String) -> Verdict {
    Verdict::violation(format!("C14:{kind}:{op}:{what}"), detail)
}

fn height_class(h: usize, cap: usize) -> &'static str {
    if h == 0 {
        "h0"
    } else if h == 1 {
        "h1"
    } else if h + 1 == cap {
        "hcap-1"
    } else if h + 2 == cap {
        "hcap-2"
    } else if h >= cap {
        "hcap"
    } else {
        "mid"
    }
}

fn as_i(v: Value) -> Option<i64> {
    match v {
        Value::Integer(i) => Some(i),
        _ => None,
    }
}

fn run_value(case: &Case, obs: &mut Obs) -> Verdict {
    let cap = case.cap.max(1);
    let mut st = ValueStack::new(cap);
    let mut model: Vec<i64> = Vec::new();
    let k = "value";
    for (step, op) in case.ops.iter().enumerate() {
        let name = op.name();
        obs.inc(&format!("value:{name}@{}", height_class(model.len(), cap)));
        match op {
            Op::Push(v) => {
                let free = cap - model.len();
                let r = st.push(Value::Integer(*v));
                match r {
                    Ok(()) => {
                        if free == 0 {
                            return viol(k, name, "over-capacity", format!("step {step}: push succeeded with {} values in a stack of capacity {cap}", model.len()));
                        }
                        model.push(*v);
                    }
                    Err(_) => {
                        if free >= 2 {
                            return viol(k, name, "spurious-full", format!("step {step}: push failed with {free} free slots (capacity {cap})"));
                        }
                        obs.inc("value:push_full");
                    }
                }
            }
            Op::Pop => {
                let got = st.pop();
                let want = model.pop();
                match (want, got) {
                    (Some(w), g) => {
                        if as_i(g) != Some(w) {
                            return viol(k, name, "result", format!("step {step}: pop() = {g:?}, model says {w}"));
                        }
                    }
                    (None, g) => {
                        if !g.is_null() {
                            return viol(k, name, "empty-not-nil", format!("step {step}: pop() on an empty stack returned {g:?} instead of nil"));
                        }
                    }
                }
            }
            Op::PopN(n) => {
                let got: Vec<Value> = match n {
                    1 => st.pop_n::<1>().to_vec(),
                    2 => st.pop_n::<2>().to_vec(),
                    3 => st.pop_n::<3>().to_vec(),
                    _ => st.pop_n::<8>().to_vec(),
                };
                for (i, g) in got.iter().enumerate() {
                    match model.pop() {
                        Some(w) => {
                            if as_i(*g) != Some(w) {
                                return viol(k, name, "result", format!("step {step}: pop_n result[{i}] = {g:?}, model says {w}"));
                            }
                        }
                        None => {
                            if !g.is_null() {
                                return viol(k, name, "missing-not-nil", format!("step {step}: pop_n result[{i}] = {g:?} for a missing value instead of nil"));
                            }
                        }
                    }
                }
            }
            Op::PopWOffset(off) => {
                let got = st.pop_w_offset(*off);
                if model.len() <= *off {
                    if !got.is_null() {
                        return viol(k, name, "result", format!("step {step}: pop_w_offset({off}) with height {} returned {got:?}", model.len()));
                    }
                } else {
                    let w = model.pop().unwrap();
                    if as_i(got) != Some(w) {
                        return viol(k, name, "result", format!("step {step}: pop_w_offset({off}) = {got:?}, model says {w}"));
                    }
                }
            }
            Op::Set(i, v) => {
                let r = st.set(*i, Value::Integer(*v));
                if *i > model.len() {
                    if r.is_ok() {
                        return viol(k, name, "beyond-accepted", format!("step {step}: set({i}) beyond height {} was accepted", model.len()));
                    }
                } else if *i == model.len() {
                    let free = cap - model.len();
                    if free <= 2 {
                        // "a write at the current height pushes": the same fullness rule as push on an equal stack
                        let mut probe = ValueStack::new(cap);
                        for x in model.iter() {
                            let _ = probe.push(Value::Integer(*x));
                        }
                        if probe.len() == model.len() {
                            let push_ok = probe.push(Value::Integer(*v)).is_ok();
                            obs.inc("value:set_at_height_vs_push_at_brim");
                            if push_ok != r.is_ok() {
                                return viol(
                                    k,
                                    name,
                                    "differs-from-push",
                                    format!("step {step}: with {} values in a stack of capacity {cap}, set at the current height {} but push {}", model.len(), if r.is_ok() { "succeeds" } else { "fails" }, if push_ok { "succeeds" } else { "fails" }),
                                );
                            }
                        }
                    }
                    match r {
                        Ok(_) => {
                            if free == 0 {
                                return viol(k, name, "over-capacity", format!("step {step}: set at height pushed beyond capacity {cap}"));
                            }
                            model.push(*v);
                        }
                        Err(_) => {
                            if free >= 2 {
                                return viol(k, name, "spurious-full", format!("step {step}: set at height failed with {free} free slots"));
                            }
                        }
                    }
                } else {
                    match r {
                        Ok(old) => {
                            if as_i(old) != Some(model[*i]) {
                                return viol(k, name, "old-value", format!("step {step}: set({i}) returned old value {old:?}, model says {}", model[*i]));
                            }
                            model[*i] = *v;
                        }
                        Err(e) => {
                            return viol(k, name, "rejected", format!("step {step}: set({i}) below height {} was rejected: {e}", model.len()));
                        }
                    }
                }
            }
            Op::Get(i) => {
                let got = st.get(*i);
                let want = model.get(*i).copied();
                if as_i(got) != want || (want.is_none() && !got.is_null()) {
                    return viol(k, name, "result", format!("step {step}: get({i}) = {got:?}, model says {want:?}"));
                }
            }
            Op::Last => {
                let got = st.last();
                let want = model.last().copied();
                if as_i(got) != want || (want.is_none() && !got.is_null()) {
                    return viol(k, name, "result", format!("step {step}: last() = {got:?}, model says {want:?}"));
                }
            }
            Op::PeekLast(n) => {
                let got = st.peek_last(*n);
                let want = if model.len() > *n { Some(model[model.len() - 1 - n]) } else { None };
                if as_i(got) != want || (want.is_none() && !got.is_null()) {
                    return viol(k, name, "result", format!("step {step}: peek_last({n}) = {got:?}, model says {want:?}"));
                }
            }
            Op::Clear => {
                st.clear();
                model.clear();
            }
            Op::ClearUntil(i) => {
                let i = (*i).min(model.len());
                let _ = st.clear_until(i);
                model.truncate(i);
            }
            Op::Iter | Op::LastMut(_) | Op::IterBackwards => {}
        }
        // full state comparison
        if st.len() != model.len() || st.is_empty() != model.is_empty() {
            return viol(k, name, "len", format!("step {step} after {op:?}: len() = {}, model says {}", st.len(), model.len()));
        }
        if st.len() > cap {
            return viol(k, name, "over-capacity", format!("step {step}: holds {} values, capacity {cap}", st.len()));
        }
        let content: Vec<Option<i64>> = st.iter().map(as_i).collect();
        let want: Vec<Option<i64>> = model.iter().map(|x| Some(*x)).collect();
        if content != want {
            return viol(k, name, "content", format!("step {step} after {op:?}: content {content:?}, model {want:?}"));
        }
        let sl: Vec<Option<i64>> = st.as_slice().iter().map(|v| as_i(*v)).collect();
        if sl != want {
            return viol(k, name, "as_slice", format!("step {step} after {op:?}: as_slice {sl:?}, model {want:?}"));
        }
        obs.inc("ops_compared");
    }
    if case.ops.len() >= 10 {
        obs.nontrivial = true;
    }
    Verdict::Ok
}

fn run_bounded(case: &Case, obs: &mut Obs) -> Verdict {
    reg_reset();
    let mut v = run_bounded_inner(case, obs);
    let mut errs = reg_take_errors();
    if !v.is_violation() {
        errs.extend(reg_final_check());
        if let Some((s, d)) = errs.into_iter().next() {
            v = Verdict::violation(format!("C14:bounded:{s}"), d);
        }
    }
    v
}

fn run_bounded_inner(case: &Case, obs: &mut Obs) -> Verdict {
    let cap = case.cap.max(1);
    let mut st: BoundedStack<DV> = BoundedStack::new(cap);
    let mut model: Vec<i64> = Vec::new();
    let k = "bounded";
    for (step, op) in case.ops.iter().enumerate() {
        let name = op.name();
        obs.inc(&format!("bounded:{name}@{}", height_class(model.len(), cap + 1)));
        match op {
            Op::Push(v) => {
                let free = cap - model.len();
                match st.push(DV::new(*v)) {
                    Ok(()) => {
                        if free == 0 {
                            return viol(k, name, "over-capacity", format!("step {step}: push succeeded on a full stack (capacity {cap})"));
                        }
                        model.push(*v);
                    }
                    Err(_) => {
                        if free >= 1 {
                            return viol(k, name, "spurious-full", format!("step {step}: push failed with {free} free slots"));
                        }
                        obs.inc("bounded:push_full");
                    }
                }
            }
            Op::Pop => {
                let got = st.pop().map(|v| v.read());
                let want = model.pop();
                if got != want {
                    return viol(k, name, "result", format!("step {step}: pop() = {got:?}, model says {want:?}"));
                }
            }
            Op::Last => {
                let got = st.last().map(|v| v.read());
                if got != model.last().copied() {
                    return viol(k, name, "result", format!("step {step}: last() = {got:?}, model says {:?}", model.last()));
                }
            }
            Op::LastMut(v) => match (st.last_mut(), model.last_mut()) {
                (Some(s), Some(m)) => {
                    if s.read() != *m {
                        return viol(k, name, "result", format!("step {step}: last_mut() sees {}, model says {}", s.v, m));
                    }
                    s.v = *v;
                    *m = *v;
                }
                (None, None) => {}
                (a, b) => {
                    return viol(k, name, "result", format!("step {step}: last_mut() is_some={} model is_some={}", a.is_some(), b.is_some()));
                }
            },
            Op::Clear => {
                st.clear();
                model.clear();
            }
            _ => {}
        }
        if let Some((s, d)) = reg_take_errors().into_iter().next() {
            return viol(k, name, &s, format!("step {step} ({op:?}): {d}"));
        }
        if st.len() != model.len() || st.is_empty() != model.is_empty() {
            return viol(k, name, "len", format!("step {step} after {op:?}: len() = {}, model says {}", st.len(), model.len()));
        }
        if st.len() > st.capacity() || st.capacity() != cap {
            return viol(k, name, "capacity", format!("step {step}: len {} capacity {} requested {cap}", st.len(), st.capacity()));
        }
        let content: Vec<i64> = st.iter().map(|v| v.read()).collect();
        if content != model {
            return viol(k, name, "content", format!("step {step} after {op:?}: iter() {content:?}, model {model:?}"));
        }
        let mut back: Vec<i64> = st.iter_backwards().map(|v| v.read()).collect();
        back.reverse();
        if back != model {
            return viol(k, name, "iter_backwards", format!("step {step} after {op:?}: iter_backwards() reversed {back:?}, model {model:?}"));
        }
        obs.inc("ops_compared");
    }
    if case.ops.len() >= 10 {
        obs.nontrivial = true;
    }
    Verdict::Ok
}
