//! Small deterministic PRNG (splitmix64 seeding + xoshiro256**)

#[derive(Clone, Debug)]
pub struct Prng {
    s: [u64; 4],
}

pub fn splitmix(x: &mut u64) -> u64 {
    *x = x.wrapping_add(0x9E3779B97F4A7C15);
    let mut z = *x;
    z = (z ^ (z >> 30)).wrapping_mul(0xBF58476D1CE4E5B9);
    z = (z ^ (z >> 27)).wrapping_mul(0x94D049BB133111EB);
    z ^ (z >> 31)
}

pub fn mix(a: u64, b: u64, c: u64) -> u64 {
    let mut x = a ^ 0x1234_5678_9abc_def0;
    let mut r = splitmix(&mut x);
    x ^= b.wrapping_mul(0x9E3779B97F4A7C15);
    r ^= splitmix(&mut x);
    x ^= c.wrapping_mul(0xD6E8FEB86659FD93);
    r ^= splitmix(&mut x);
    r
}

pub fn fnv64(s: &[u8]) -> u64 {
    let mut h: u64 = 0xcbf29ce484222325;
    for b in s {
        h ^= *b as u64;
        h = h.wrapping_mul(0x100000001b3);
    }
    h
}

impl Prng {
    pub fn new(seed: u64) -> Self {
        let mut x = seed;
        let s = [
            splitmix(&mut x),
            splitmix(&mut x),
            splitmix(&mut x),
            splitmix(&mut x),
        ];
        Prng { s }
    }

    pub fn next_u64(&mut self) -> u64 {
        let result = self.s[1].wrapping_mul(5).rotate_left(7).wrapping_mul(9);
        let t = self.s[1] << 17;
        self.s[2] ^= self.s[0];
        self.s[3] ^= self.s[1];
        self.s[1] ^= self.s[2];
        self.s[0] ^= self.s[3];
        self.s[2] ^= t;
        self.s[3] = self.s[3].rotate_left(45);
        result
    }

    /// uniform in [0, n)
    pub fn below(&mut self, n: usize) -> usize {
        if n == 0 {
            return 0;
        }
        (self.next_u64() % n as u64) as usize
    }

    /// uniform in [a, b] inclusive
    pub fn range(&mut self, a: i64, b: i64) -> i64 {
        if b <= a {
            return a;
        }
        let span = (b - a) as u64 + 1;
        a + (self.next_u64() % span) as i64
    }

    /// true with probability num/den
    pub fn chance(&mut self, num: u32, den: u32) -> bool {
        (self.next_u64() % den as u64) < num as u64
    }

    pub fn pick<'a, T>(&mut self, xs: &'a [T]) -> &'a T {
        &xs[self.below(xs.len())]
    }

    /// pick an index according to weights
    pub fn weighted(&mut self, weights: &[u32]) -> usize {
        let total: u64 = weights.iter().map(|w| *w as u64).sum();
        if total == 0 {
            return 0;
        }
        let mut r = self.next_u64() % total;
        for (i, w) in weights.iter().enumerate() {
            if r < *w as u64 {
                return i;
            }
            r -= *w as u64;
        }
        weights.len() - 1
    }

    pub fn shuffle<T>(&mut self, xs: &mut [T]) {
        for i in (1..xs.len()).rev() {
            let j = self.below(i + 1);
            xs.swap(i, j);
        }
    }
}
