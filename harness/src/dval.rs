//! Deep, owned, comparable snapshots of runtime values (VM side and reference side share this type).
use cao_lang::prelude::*;
use cao_lang::vm::runtime::cao_lang_object::{CaoLangObject, CaoLangObjectBody};
use serde::{Deserialize, Serialize};

#[derive(Clone, Debug, PartialEq, Serialize, Deserialize)]
pub enum DVal {
    Nil,
    Int(i64),
    /// bit pattern, all NaNs identified
    Real(u64),
    Str(String),
    Table(Vec<(DVal, DVal)>),
    /// kind = function | closure | native ; arity (-1 when unknown)
    Func(String, i64),
    /// back reference to an enclosing table (depth counted from the outermost)
    Cycle(usize),
    Other(String),
}

pub fn real_bits(f: f64) -> u64 {
    if f.is_nan() {
        f64::NAN.to_bits()
    } else {
        f.to_bits()
    }
}

impl DVal {
    pub fn real(f: f64) -> Self {
        DVal::Real(real_bits(f))
    }
    pub fn short(&self) -> String {
        match self {
            DVal::Nil => "nil".into(),
            DVal::Int(i) => format!("{i}"),
            DVal::Real(b) => format!("{:?}f", f64::from_bits(*b)),
            DVal::Str(s) => format!("{s:?}"),
            DVal::Table(t) => {
                let inner: Vec<String> = t.iter().take(8).map(|(k, v)| format!("{}:{}", k.short(), v.short())).collect();
                format!("{{{}{}}}", inner.join(","), if t.len() > 8 { ",…" } else { "" })
            }
            DVal::Func(k, a) => format!("<{k}/{a}>"),
            DVal::Cycle(d) => format!("<cycle^{d}>"),
            DVal::Other(s) => format!("<{s}>"),
        }
    }
}

/// Snapshot a VM value. Safety: the value must belong to a live VM.
pub fn deep(v: Value) -> DVal {
    let mut stack: Vec<*const CaoLangObject> = Vec::new();
    let mut budget = SNAPSHOT_NODE_BUDGET;
    deep_rec(v, &mut stack, &mut budget)
}

/// A snapshot is a tree: a graph of tables that refer to each other unfolds into one node per path.
/// Both snapshot functions (VM side and reference side) stop after the same number of nodes, in the
/// same traversal order, so truncated snapshots still compare equal exactly when the graphs agree.
pub const SNAPSHOT_NODE_BUDGET: usize = 20_000;

fn deep_rec(v: Value, stack: &mut Vec<*const CaoLangObject>, budget: &mut usize) -> DVal {
    if *budget == 0 {
        return DVal::Other("too-large".into());
    }
    *budget -= 1;
    match v {
        Value::Nil => DVal::Nil,
        Value::Integer(i) => DVal::Int(i),
        Value::Real(r) => DVal::real(r),
        Value::Object(o) => unsafe {
            let p = o.as_ptr() as *const CaoLangObject;
            if let Some(pos) = stack.iter().position(|x| *x == p) {
                return DVal::Cycle(pos);
            }
            if stack.len() > 64 {
                return DVal::Other("too-deep".into());
            }
            match &o.as_ref().body {
                CaoLangObjectBody::String(s) => DVal::Str(s.as_str().to_string()),
                CaoLangObjectBody::Table(t) => {
                    stack.push(p);
                    let mut out = Vec::with_capacity(t.len());
                    for (k, v) in t.iter() {
                        out.push((deep_rec(*k, stack, budget), deep_rec(*v, stack, budget)));
                    }
                    stack.pop();
                    DVal::Table(out)
                }
                CaoLangObjectBody::Function(f) => DVal::Func("function".into(), f.arity as i64),
                CaoLangObjectBody::Closure(c) => DVal::Func("closure".into(), c.function.arity as i64),
                CaoLangObjectBody::NativeFunction(_) => DVal::Func("native".into(), -1),
                CaoLangObjectBody::Upvalue(_) => DVal::Other("upvalue".into()),
            }
        },
    }
}

/// the *kind* of an execution error, which is what the checks compare
pub fn err_kind(e: &ExecutionErrorPayload) -> String {
    use ExecutionErrorPayload::*;
    match e {
        CallStackOverflow => "CallStackOverflow".into(),
        UnexpectedEndOfInput => "UnexpectedEndOfInput".into(),
        ExitCode(_) => "ExitCode".into(),
        InvalidInstruction(_) => "InvalidInstruction".into(),
        InvalidArgument { .. } => "InvalidArgument".into(),
        VarNotFound(_) => "VarNotFound".into(),
        ProcedureNotFound(_) => "ProcedureNotFound".into(),
        Unimplemented => "Unimplemented".into(),
        OutOfMemory => "OutOfMemory".into(),
        MissingArgument => "MissingArgument".into(),
        Timeout => "Timeout".into(),
        TaskFailure { name, error } => format!("TaskFailure[{name}:{}]", err_kind(error)),
        Stackoverflow => "Stackoverflow".into(),
        BadReturn { .. } => "BadReturn".into(),
        Unhashable => "Unhashable".into(),
        AssertionError(_) => "AssertionError".into(),
        InvalidUpvalue => "InvalidUpvalue".into(),
        NotClosure => "NotClosure".into(),
        // a variant added to the crate later must not stop the harness from compiling
        #[allow(unreachable_patterns)]
        other => format!("{other:?}").split(|c: char| !c.is_alphanumeric()).next().unwrap_or("?").to_string(),
    }
}

pub fn is_resource_error(kind: &str) -> bool {
    matches!(kind, "CallStackOverflow" | "Stackoverflow" | "Timeout" | "OutOfMemory")
}
