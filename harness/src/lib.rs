//! caoverif: runtime-monitoring harness for cao-lang (see /verif/DESIGN.md)
pub mod prng;
pub mod runner;

pub mod e_hashmap;
pub mod e_handletable;
pub mod e_stacks;
pub mod e_module;
pub mod dval;
pub mod refsem;
pub mod vmrun;
pub mod gen;
pub mod gen_closure;
pub mod shrink;
pub mod e_prog;
pub mod pp;
pub mod e_resolve;
pub mod e_total;
pub mod audit;
pub mod e_gc;
pub mod e_bytecode;
pub mod e_budget;
pub mod e_lifecycle;
pub mod e_laws;
pub mod e_trace;
