//! caoverif: runtime-monitoring harness for cao-lang (see /verif/DESIGN.md)
pub mod prng;
pub mod runner;

pub mod e_hashmap;
pub mod e_handletable;
pub mod e_stacks;
pub mod e_module;
