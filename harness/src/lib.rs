pub fn hello() {}
