//! C17 (a cleared VM behaves like a fresh one; repeated runs are deterministic and leak nothing) and
//! C05 (allocation ledger over the hook event log; memory limit; garbage is reclaimed; OutOfMemory only when live data does not fit).
use crate::dval::DVal;
use crate::e_gc::outcomes_differ;
use crate::gen::*;
use crate::prng::Prng;
use crate::runner::{Engine, Obs, Tier, Verdict};
use crate::vmrun::{compile_module, new_vm, observe, Aux, VmConfig, VmOutcome};
use cao_lang::compiler::{CardBody, Function, Module};
use cao_lang::prelude::*;
use cao_lang::verif_hooks::AllocEvent;
use serde::{Deserialize, Serialize};
use std::collections::HashMap;

#[derive(Clone, Serialize, Deserialize)]
pub struct Step {
    pub prog: usize,
    pub budget: u64,
    pub clear_before: bool,
}

#[derive(Clone, Serialize, Deserialize)]
pub struct Case {
    pub programs: Vec<(String, Module)>,
    pub inputs: Vec<DVal>,
    pub memory_limit: usize,
    pub steps: Vec<Step>,
    /// "cleared": every run is preceded by clear and compared with a fresh VM;
    /// "repeat": one stack-balanced program run n times without clear
    pub mode: String,
}

pub struct LifecycleEngine {
    /// sanitizer builds: shorter histories, the reference VM runs on the same thread (thread creation with a large
    /// stack is very slow under AddressSanitizer)
    pub light: bool,
    /// "c17" or "c05"
    pub property: String,
}

fn func(params: &[&str], cards: Vec<cao_lang::compiler::Card>) -> Function {
    Function { arguments: params.iter().map(|s| s.to_string()).collect(), cards }
}

/// programs with a known relation between live data and garbage
fn memory_program(rng: &mut Prng) -> (String, Module) {
    let mut m = Module::default();
    let mut main = vec![set("_", nil())];
    let name;
    match rng.below(10) {
        9 => {
            name = "churn:function-values";
            // every kind of function value is an object of its own: native, script function, closure
            let n = rng.range(50, 600);
            m.functions.push(("h".into(), func(&["x"], vec![un("ret", read("x"))])));
            main.push(set("acc", int(0)));
            main.push(repeat(
                int(n),
                Some("i"),
                comp(vec![
                    set("_", nil()),
                    set("nf", CardBody::NativeFunction("id1".into()).into()),
                    set("sf", CardBody::Function("h".into()).into()),
                    set("cf", closure(&["y"], vec![un("ret", bin("add", read("y"), read("i")))])),
                    set("acc", bin("add", read("acc"), bin("add", dyncall(read("nf"), vec![int(1)]), bin("add", dyncall(read("sf"), vec![int(1)]), dyncall(read("cf"), vec![int(1)]))))),
                ]),
            ));
            main.push(discard(native("log1", vec![read("acc")])));
        }
        8 => {
            name = "compare:tables";
            // content comparison and hashing of tables, many times per run
            let n = rng.range(500, 2500);
            main.push(set("a", CardBody::Array(vec![int(1), int(2), strc("x")]).into()));
            main.push(set("b", CardBody::Array(vec![int(1), int(2), strc("x")]).into()));
            main.push(set("outer", CardBody::CreateTable.into()));
            main.push(setprop(int(42), read("outer"), read("a")));
            main.push(set("same", int(0)));
            main.push(repeat(int(n), None, comp(vec![set("same", bin("add", read("same"), bin("eq", read("a"), read("b"))))])));
            main.push(discard(native("log2", vec![read("same"), bin("getprop", read("outer"), read("b"))])));
            main.push(setg("g_equal", bin("eq", read("a"), read("b"))));
        }
        6 | 7 => {
            name = "churn:large-live";
            // most of the limit is live (the limit is calibrated to live/0.6 in gen()); then a long stream of garbage:
            // the collector has to run again and again although the survivors exceed half the limit
            let k = rng.range(40, 1500);
            let n = rng.range(1500, 3000);
            main.push(set("t", CardBody::CreateTable.into()));
            main.push(setg("g_live", read("t")));
            main.push(repeat(int(k), Some("i"), comp(vec![bin("append", native("concat", vec![read("i"), strc("kept-kept-kept-kept-kept-kept-kept-kept")]), read("t"))])));
            main.push(set("s", strc("seed")));
            main.push(repeat(int(n), Some("i"), comp(vec![set("s", native("concat", vec![read("i"), strc("garbage-garbage-garbage-garbage-garbage-garbage-garbage-garbage-garbage")]))])));
            main.push(discard(native("log1", vec![un("len", read("t"))])));
        }
        0 => {
            name = "churn:strings";
            // bounded live data (one string), lots of garbage
            let n = rng.range(50, 400);
            main.push(set("s", strc("seed")));
            main.push(repeat(int(n), Some("i"), comp(vec![set("s", native("concat", vec![read("i"), strc("payload-payload-payload-payload")]))])));
            main.push(discard(native("log1", vec![read("s")])));
        }
        1 => {
            name = "churn:tables";
            let n = rng.range(30, 200);
            main.push(set("t", CardBody::CreateTable.into()));
            main.push(repeat(
                int(n),
                Some("i"),
                comp(vec![set("t", CardBody::CreateTable.into()), bin("append", read("i"), read("t")), bin("append", native("concat", vec![read("i"), strc("x")]), read("t"))]),
            ));
            main.push(discard(native("log1", vec![read("t")])));
        }
        2 => {
            name = "churn:closures-and-rows";
            let n = rng.range(20, 120);
            main.push(set("t", CardBody::Array(vec![int(1), int(2), int(3)]).into()));
            main.push(set("acc", int(0)));
            main.push(repeat(
                int(n),
                Some("i"),
                comp(vec![
                    set("_", nil()),
                    set("f", closure(&["m"], vec![un("ret", bin("add", read("m"), read("i")))])),
                    set("r", bin("get", read("t"), int(1))),
                    set("acc", bin("add", read("acc"), dyncall(read("f"), vec![read("r.value")]))),
                ]),
            ));
            main.push(discard(native("log1", vec![read("acc")])));
        }
        3 => {
            name = "growth:table-of-strings";
            // live data grows without bound: must end in OutOfMemory under a small limit
            let n = rng.range(200, 4000);
            main.push(set("t", CardBody::CreateTable.into()));
            main.push(repeat(int(n), Some("i"), comp(vec![bin("append", native("concat", vec![read("i"), strc("kept-kept-kept-kept-kept-kept-kept-kept")]), read("t"))])));
            main.push(discard(native("log1", vec![un("len", read("t"))])));
        }
        4 => {
            name = "churn:library";
            let n = rng.range(5, 40);
            main.push(set("t", CardBody::Array(vec![int(5), int(3), int(9), int(1)]).into()));
            main.push(repeat(int(n), None, comp(vec![set("_", nil()), set("u", call("std.sorted", vec![read("t")])), set("w", call("std.to_array", vec![read("u")])), set("_", call("std.max", vec![read("w")]))])));
            main.push(discard(native("log1", vec![read("t")])));
        }
        _ => {
            name = "fail:deep-recursion";
            m.functions.push(("f".into(), func(&["d"], vec![set("_", nil()), set("pad", strc("frame")), un("ret", call("f", vec![bin("add", read("d"), int(1))]))])));
            main.push(discard(call("f", vec![int(0)])));
        }
    }
    m.functions.insert(0, ("main".into(), func(&[], main)));
    (name.to_string(), m)
}

fn failing_program(rng: &mut Prng) -> (String, Module) {
    let mut m = Module::default();
    let mut main = vec![set("_", nil())];
    let name;
    match rng.below(4) {
        0 => {
            name = "fail:native-error";
            main.push(setg("g0", int(7)));
            main.push(discard(native("fail", vec![])));
        }
        1 => {
            name = "fail:error-inside-reentry";
            m.functions.push(("bad".into(), func(&["d"], vec![set("_", nil()), set("t", CardBody::CreateTable.into()), discard(bin("getprop", int(3), read("d")))])));
            main.push(setg("g1", strc("before")));
            main.push(discard(native("apply1", vec![CardBody::Function("bad".into()).into(), int(1)])));
        }
        2 => {
            name = "fail:endless-loop";
            main.push(setg("g0", int(1)));
            main.push(bin("while", int(1), comp(vec![setg("g0", bin("add", read("g0"), int(1)))])));
        }
        _ => {
            name = "fail:value-stack";
            // many locals per frame and deep recursion: value stack overflow before the call stack
            let mut body = vec![set("_", nil())];
            for i in 0..6 {
                body.push(set(format!("l{i}"), int(i)));
            }
            body.push(un("ret", call("f", vec![read("d")])));
            m.functions.push(("f".into(), func(&["d"], body)));
            main.push(discard(call("f", vec![int(0)])));
        }
    }
    m.functions.insert(0, ("main".into(), func(&[], main)));
    (name.to_string(), m)
}

fn random_program(rng: &mut Prng) -> (String, Module) {
    match rng.below(3) {
        0 => crate::gen_closure::gen_gc_scenario(rng).pipe(),
        1 => crate::gen_closure::gen_closure_scenario(rng).pipe(),
        _ => {
            let mut g = ProgGen::new(rng, GenCfg { closures: 15, stdlib: 10, reentry: 4, ill_typed: 3, ..GenCfg::core() });
            ("random".to_string(), g.gen_program())
        }
    }
}

trait Pipe {
    fn pipe(self) -> (String, Module);
}
impl Pipe for (Module, String) {
    fn pipe(self) -> (String, Module) {
        (self.1, self.0)
    }
}

struct Ledger {
    outstanding: HashMap<usize, usize>,
    sum: usize,
    events: u64,
}

impl Ledger {
    fn new() -> Self {
        Ledger { outstanding: HashMap::new(), sum: 0, events: 0 }
    }
    /// returns the size of the last failed allocation request, if any
    fn replay(&mut self, evs: &[AllocEvent]) -> Result<Option<usize>, (String, String)> {
        let mut last_failed = None;
        // a collection runs inside `alloc`, after the request has been charged but before it is logged:
        // during that window the counter legitimately includes the pending request
        let mut pending = 0usize;
        for (ei, e) in evs.iter().enumerate() {
            self.events += 1;
            match e {
                AllocEvent::Alloc { idx, size, align, ptr, ok, allocated_after, limit } => {
                    let charge = size + align;
                    if *ok {
                        if self.outstanding.insert(*ptr, charge).is_some() {
                            return Err(("ledger:address-reused-while-live".into(), format!("allocation #{idx} returned {ptr:#x}, which is still outstanding")));
                        }
                        self.sum += charge;
                    } else {
                        last_failed = Some(charge);
                    }
                    if *allocated_after != self.sum {
                        return Err((
                            if *ok { "ledger:counter-mismatch".into() } else { "ledger:failed-allocation-still-charged".into() },
                            format!("after allocation #{idx} (size {size}, ok = {ok}) the accounted usage is {allocated_after} but the outstanding allocations add up to {}", self.sum),
                        ));
                    }
                    if *allocated_after > *limit {
                        return Err(("ledger:over-limit".into(), format!("after allocation #{idx} the accounted usage {allocated_after} exceeds the limit {limit}")));
                    }
                }
                AllocEvent::Dealloc { size, align, ptr, allocated_after } => {
                    let allocated_after = &(allocated_after.wrapping_sub(pending));
                    let charge = size + align;
                    match self.outstanding.remove(ptr) {
                        None => return Err(("ledger:free-of-unknown-block".into(), format!("release of {ptr:#x} ({size} bytes), which is not outstanding (double free?)"))),
                        Some(c) => {
                            if c != charge {
                                return Err(("ledger:refund-differs-from-charge".into(), format!("block {ptr:#x} was charged {c} but refunded {charge}")));
                            }
                            self.sum -= c;
                        }
                    }
                    if *allocated_after != self.sum {
                        return Err(("ledger:counter-mismatch".into(), format!("after releasing {ptr:#x} the accounted usage is {allocated_after} but the outstanding allocations add up to {}", self.sum)));
                    }
                }
                AllocEvent::GcBegin => {
                    pending = 0;
                    if let Some(end) = evs[ei..].iter().position(|x| matches!(x, AllocEvent::GcEnd)) {
                        if let Some(AllocEvent::Alloc { size, align, .. }) = evs.get(ei + end + 1) {
                            pending = size + align;
                        }
                    }
                }
                AllocEvent::GcEnd => pending = 0,
            }
        }
        Ok(last_failed)
    }
}

fn run_once(vm: &mut Vm<Aux>, program: &CaoCompiledProgram, budget: u64) -> (VmOutcome, usize, u64) {
    vm.max_instr = budget;
    vm.auxiliary_data.log.clear();
    let d0 = vm.runtime_data.verif.dispatched;
    let r = vm.run(program);
    let out = observe(vm, program, &r);
    let allocated = vm.runtime_data.verif_allocator().allocated.load(std::sync::atomic::Ordering::Relaxed);
    (out, allocated, vm.runtime_data.verif.dispatched - d0)
}

impl Engine for LifecycleEngine {
    type Case = Case;
    fn name(&self) -> &'static str {
        "lifecycle"
    }

    fn gen(&mut self, rng: &mut Prng, tier: Tier) -> Case {
        let inputs = crate::e_prog::gen_inputs(rng);
        let np = rng.range(1, 4) as usize;
        let mut programs = Vec::new();
        for _ in 0..np {
            programs.push(match rng.below(10) {
                0..=3 => memory_program(rng),
                4 | 5 => failing_program(rng),
                _ => random_program(rng),
            });
        }
        let mut memory_limit = *rng.pick(&[4096usize, 8192, 16384, 65536, 400 * 1024, 400 * 1024, 1 << 20]);
        let mut mode = if rng.chance(1, 4) { "repeat" } else { "cleared" }.to_string();
        // calibrate the limit to the largest "large-live" program of the pool: live data = 60 % of the limit
        let mut largest = 0usize;
        for (n, m) in programs.iter() {
            if n == "churn:large-live" {
                if let Ok(p) = compile_module(m) {
                    let cfg = VmConfig { max_instr: 400_000, suppress_gc: false, memory_limit: Some(256 << 20), stack_size: None };
                    let mut vm = new_vm(&cfg, &inputs);
                    let _ = vm.run(&p);
                    vm.runtime_data.gc();
                    largest = largest.max(vm.runtime_data.verif_allocator().allocated.load(std::sync::atomic::Ordering::Relaxed));
                }
            }
        }
        if largest > 0 {
            memory_limit = largest * 5 / 3;
            mode = "cleared".into();
        }
        // without clear the globals of the previous run stay alive for a while: give repeat mode room,
        // so that OutOfMemory can only come from something that accumulates run after run
        let memory_limit = if mode == "repeat" { memory_limit.max(400 * 1024) } else { memory_limit };
        let mut steps = Vec::new();
        if mode == "repeat" {
            let n = if rng.chance(1, 3) { rng.range(257, 300) } else { rng.range(2, 40) } as usize;
            let n = if tier == Tier::Quick { n.min(270) } else { n };
            for _ in 0..n {
                steps.push(Step { prog: 0, budget: 200_000, clear_before: false });
            }
        } else {
            let n = if rng.chance(1, 6) { rng.range(257, 320) } else { rng.range(2, 30) } as usize;
            for _ in 0..n {
                let budget = *rng.pick(&[200_000u64, 200_000, 200_000, 50, 500, 5000]);
                steps.push(Step { prog: rng.below(np), budget, clear_before: true });
            }
        }
        if self.light {
            steps.truncate(40);
        }
        Case { programs, inputs, memory_limit, steps, mode }
    }

    fn run(&mut self, case: &Case, obs: &mut Obs) -> Verdict {
        let c05 = self.property == "c05";
        let pid = if c05 { "C05" } else { "C17" };
        let compiled: Vec<Option<CaoCompiledProgram>> = case.programs.iter().map(|(_, m)| compile_module(m).ok()).collect();
        if compiled.iter().any(|c| c.is_none()) {
            return Verdict::Skip { reason: "a program of the pool does not compile".into() };
        }
        let compiled: Vec<CaoCompiledProgram> = compiled.into_iter().map(|c| c.unwrap()).collect();
        let cfg = VmConfig { max_instr: 200_000, suppress_gc: false, memory_limit: Some(case.memory_limit), stack_size: None };
        let mut vm = new_vm(&cfg, &case.inputs);
        let mut ledger = Ledger::new();
        if c05 {
            vm.runtime_data.verif_allocator().verif.start_log();
        }
        obs.inc(&format!("mode:{}", case.mode));
        let mut first_repeat: Option<VmOutcome> = None;
        let mut first_runs: Vec<((usize, u64), VmOutcome)> = Vec::new();
        for (si, step) in case.steps.iter().enumerate() {
            let (pname, _) = &case.programs[step.prog];
            let program = &compiled[step.prog];
            if step.clear_before && si > 0 {
                vm.clear();
                let a = vm.runtime_data.verif_allocator();
                let left = a.allocated.load(std::sync::atomic::Ordering::Relaxed);
                if c05 {
                    let evs = a.verif.drain_log();
                    if let Err((s, d)) = ledger.replay(&evs) {
                        return Verdict::violation(format!("C05:{s}"), format!("step {si} (clear): {d}"));
                    }
                    if left != 0 || !ledger.outstanding.is_empty() {
                        return Verdict::violation(
                            "C05:clear:not-zero",
                            format!("step {si}: after clear the accounted usage is {left} and {} allocations are outstanding", ledger.outstanding.len()),
                        );
                    }
                    obs.inc("clears_checked");
                }
            }
            let (out, allocated, dispatched) = run_once(&mut vm, program, step.budget);
            obs.inc("runs");
            obs.inc(&format!("result:{}", out.result.split('[').next().unwrap_or("?")));
            obs.add("collections", out.gc_count);
            if c05 {
                let evs = vm.runtime_data.verif_allocator().verif.drain_log();
                obs.add("ledger_events", evs.len() as u64);
                let last_failed = match ledger.replay(&evs) {
                    Ok(f) => f,
                    Err((s, d)) => return Verdict::violation(format!("C05:{s}"), format!("step {si} ({pname}): {d}")),
                };
                if out.result.contains("OutOfMemory") {
                    obs.inc("oom_runs");
                    // after unwinding, what is still reachable? force a full collection and look
                    vm.runtime_data.gc();
                    let evs = vm.runtime_data.verif_allocator().verif.drain_log();
                    if let Err((s, d)) = ledger.replay(&evs) {
                        return Verdict::violation(format!("C05:{s}"), format!("step {si} (forced collection): {d}"));
                    }
                    let live = vm.runtime_data.verif_allocator().allocated.load(std::sync::atomic::Ordering::Relaxed);
                    let req = last_failed.unwrap_or(0);
                    let l = case.memory_limit;
                    // generous slack: the failing instruction itself may have held temporaries
                    if live + req + l / 4 <= l && pname.starts_with("churn") {
                        return Verdict::violation(
                            "C05:spurious-OutOfMemory",
                            format!("step {si} ({pname}): OutOfMemory with limit {l}, but after the run only {live} bytes are reachable and the failed request was {req} bytes"),
                        );
                    }
                    if pname.starts_with("growth") {
                        obs.inc("oom_genuine");
                    }
                } else if pname.starts_with("churn") && out.result == "Ok" {
                    obs.inc("churn_runs_completed");
                }
                continue;
            }
            // ---- C17
            if case.mode == "cleared" {
                // the same run repeated later in the history gives the same outcome
                let key = (step.prog, step.budget);
                match first_runs.iter().find(|(k, _)| *k == key) {
                    None => first_runs.push((key, out.clone())),
                    Some((_, first)) => {
                        if let Some((what, d)) = outcomes_differ(&out, first) {
                            return Verdict::violation(format!("{pid}:rerun-differs:{what}"), format!("step {si} ({pname}, budget {}): {d} (the first run of the same program with the same budget in this history is the reference)", step.budget));
                        }
                        obs.inc("reruns_compared");
                    }
                }
                // the reference is a newly created VM on a newly created thread (nothing carried over, not even thread-local state)
                let (t_out, t_alloc, t_disp) = if self.light {
                    let mut twin = new_vm(&cfg, &case.inputs);
                    run_once(&mut twin, program, step.budget)
                } else {
                    struct Shared(*const CaoCompiledProgram, *const VmConfig, *const Vec<DVal>);
                    unsafe impl Send for Shared {}
                    let sh = Shared(program as *const _, &cfg as *const _, &case.inputs as *const _);
                    let budget = step.budget;
                    let h = std::thread::Builder::new().stack_size(32 << 20).spawn(move || {
                        let sh = sh;
                        // the spawning thread waits in join() below: the referents outlive this thread and are not touched meanwhile
                        let (program, cfg, inputs) = unsafe { (&*sh.0, &*sh.1, &*sh.2) };
                        let mut twin = new_vm(cfg, inputs);
                        run_once(&mut twin, program, budget)
                    });
                    match h.map(|h| h.join()) {
                        Ok(Ok(r)) => r,
                        _ => return Verdict::Inconclusive { reason: "the reference run on a fresh thread could not be completed".into() },
                    }
                };
                obs.inc("fresh_thread_twins");
                if let Some((what, d)) = outcomes_differ(&out, &t_out) {
                    return Verdict::violation(format!("{pid}:cleared-vm-differs:{what}"), format!("step {si} ({pname}, budget {}): on the cleared VM {d} (fresh VM is the reference)", step.budget));
                }
                if dispatched != t_disp {
                    return Verdict::violation(format!("{pid}:cleared-vm-differs:instructions"), format!("step {si} ({pname}): {dispatched} instructions on the cleared VM, {t_disp} on a fresh one"));
                }
                if allocated != t_alloc {
                    return Verdict::violation(
                        format!("{pid}:cleared-vm-differs:accounted-memory"),
                        format!("step {si} ({pname}): {allocated} bytes accounted after the run on the cleared VM, {t_alloc} on a fresh one (collections: {} vs {})", out.gc_count, t_out.gc_count),
                    );
                }
                if out.result != "Ok" {
                    obs.inc("failed_run_followed_by_comparison");
                }
            } else {
                match &first_repeat {
                    None => {
                        if out.result != "Ok" {
                            return Verdict::Skip { reason: "the repeated program fails on its first run".into() };
                        }
                        if !vm.runtime_data.verif_value_stack().is_empty() || vm.runtime_data.verif_call_depth() != 0 {
                            return Verdict::Skip { reason: "the repeated program does not leave the stacks balanced (Abort / values left by Array)".into() };
                        }
                        first_repeat = Some(out);
                    }
                    Some(first) => {
                        if let Some((what, d)) = outcomes_differ(&out, first) {
                            return Verdict::violation(format!("{pid}:repeat-differs:{what}"), format!("run #{si} of {pname} without clear: {d} (run #0 is the reference)"));
                        }
                    }
                }
            }
        }
        obs.max("history_length", case.steps.len() as u64);
        if case.steps.len() > 256 {
            obs.inc("histories_longer_than_256");
        }
        obs.nontrivial = true;
        Verdict::Ok
    }

    fn shrink(&self, case: &Case) -> Vec<Case> {
        let mut out = Vec::new();
        let n = case.steps.len();
        if n > 1 {
            for keep in [n / 2, n - 1] {
                let mut c = case.clone();
                c.steps.truncate(keep.max(1));
                out.push(c);
            }
            let mut c = case.clone();
            c.steps.remove(0);
            out.push(c);
        }
        for (i, (_, m)) in case.programs.iter().enumerate() {
            for sm in crate::shrink::shrink_module(m).into_iter().take(60) {
                let mut c = case.clone();
                c.programs[i].1 = sm;
                out.push(c);
            }
        }
        out
    }
}
