//! Seeded, structure-aware generator of *well-scoped* card programs (class W of DESIGN.md 5.1).
//! Programs are well-scoped by construction:
//!  * every value slot holds a card that produces exactly one value;
//!  * new locals are introduced only at function-body / closure-body / Repeat- and ForEach-body level;
//!  * calls pass exactly `arity` arguments; Return only outside main; Abort only in main;
//!  * every global is written (in main's prologue) before anything reads it;
//!  * strict mode: statement-level values are consumed by `SetVar "_"`;
//!  * all loops terminate by construction.
use crate::prng::Prng;
use cao_lang::compiler::{
    CallNode, Card, CardBody, CompositeCard, DynamicJump, ForEach, Function, Module, Repeat, StaticJump,
    UnaryExpression,
};

#[derive(Clone, Debug, PartialEq)]
pub enum Ty {
    Int,
    Real,
    Str,
    Table,
    Nil,
    /// function value of known arity and return type index
    Func(usize),
    Any,
}

#[derive(Clone, Debug)]
pub struct GenCfg {
    pub closures: u32,
    pub tables: u32,
    pub reentry: u32,
    pub stdlib: u32,
    pub strings_long: bool,
    pub int_extremes: bool,
    pub ill_typed: u32,
    pub max_funcs: usize,
    pub max_stmts: usize,
    pub array: bool,
    pub dynamic_calls: bool,
    pub submodule: bool,
}

impl GenCfg {
    pub fn core() -> Self {
        GenCfg {
            closures: 0,
            tables: 10,
            reentry: 2,
            stdlib: 0,
            strings_long: true,
            int_extremes: true,
            ill_typed: 6,
            max_funcs: 5,
            max_stmts: 9,
            array: true,
            dynamic_calls: true,
            submodule: true,
        }
    }
    pub fn closures() -> Self {
        GenCfg { closures: 30, ..Self::core() }
    }
}

#[derive(Clone, Debug)]
struct FnSig {
    name: String,
    /// how the function is called from the root module
    call_name: String,
    arity: usize,
    params: Vec<Ty>,
    ret: Ty,
    in_sub: bool,
}

struct Env {
    scopes: Vec<Vec<(String, Ty)>>,
    /// visible through capture (closure bodies)
    captured: Vec<(String, Ty)>,
    in_main: bool,
    fn_index: usize,
    no_new_locals: bool,
    frozen: Vec<String>,
    ret: Ty,
    loop_depth: usize,
    closure_depth: usize,
    while_counters: usize,
}

impl Env {
    fn visible(&self) -> Vec<(String, Ty)> {
        let mut out: Vec<(String, Ty)> = Vec::new();
        for s in self.scopes.iter().rev() {
            for (n, t) in s.iter().rev() {
                if !out.iter().any(|(m, _)| m == n) {
                    out.push((n.clone(), t.clone()));
                }
            }
        }
        for (n, t) in self.captured.iter() {
            if !out.iter().any(|(m, _)| m == n) {
                out.push((n.clone(), t.clone()));
            }
        }
        out
    }
    fn is_visible(&self, name: &str) -> bool {
        self.visible().iter().any(|(n, _)| n == name)
    }
    fn vars_of(&self, ty: &Ty) -> Vec<String> {
        self.visible().into_iter().filter(|(n, t)| t == ty && n != "_").map(|(n, _)| n).collect()
    }
    fn declare(&mut self, name: &str, ty: Ty) {
        self.scopes.last_mut().unwrap().push((name.to_string(), ty));
    }
}

pub struct ProgGen<'r> {
    pub rng: &'r mut Prng,
    pub cfg: GenCfg,
    funcs: Vec<FnSig>,
    globals: Vec<(String, Ty)>,
    budget: i64,
}

// ---------------------------------------------------------------- card helpers
pub fn int(i: i64) -> Card {
    CardBody::ScalarInt(i).into()
}
pub fn real(f: f64) -> Card {
    CardBody::ScalarFloat(f).into()
}
pub fn nil() -> Card {
    CardBody::ScalarNil.into()
}
pub fn strc<S: AsRef<str>>(s: S) -> Card {
    CardBody::StringLiteral(s.as_ref().to_string()).into()
}
pub fn read<S: AsRef<str>>(n: S) -> Card {
    Card::read_var(n.as_ref())
}
pub fn set<S: AsRef<str>>(n: S, v: Card) -> Card {
    Card::set_var(n.as_ref(), v)
}
pub fn setg(n: &str, v: Card) -> Card {
    Card::set_global_var(n, v)
}
pub fn bin(op: &str, a: Card, b: Card) -> Card {
    let x = Box::new([a, b]);
    match op {
        "add" => CardBody::Add(x),
        "sub" => CardBody::Sub(x),
        "mul" => CardBody::Mul(x),
        "div" => CardBody::Div(x),
        "less" => CardBody::Less(x),
        "le" => CardBody::LessOrEq(x),
        "eq" => CardBody::Equals(x),
        "ne" => CardBody::NotEquals(x),
        "and" => CardBody::And(x),
        "or" => CardBody::Or(x),
        "xor" => CardBody::Xor(x),
        "getprop" => CardBody::GetProperty(x),
        "get" => CardBody::Get(x),
        "append" => CardBody::AppendTable(x),
        "iftrue" => CardBody::IfTrue(x),
        "iffalse" => CardBody::IfFalse(x),
        "while" => CardBody::While(x),
        _ => panic!("unknown binary op {op}"),
    }
    .into()
}
pub fn un(op: &str, a: Card) -> Card {
    let u = UnaryExpression::new(a);
    match op {
        "not" => CardBody::Not(u),
        "ret" => CardBody::Return(u),
        "len" => CardBody::Len(u),
        "pop" => CardBody::PopTable(u),
        _ => panic!("unknown unary op {op}"),
    }
    .into()
}
pub fn ifelse(c: Card, t: Card, e: Card) -> Card {
    CardBody::IfElse(Box::new([c, t, e])).into()
}
pub fn setprop(v: Card, t: Card, k: Card) -> Card {
    Card::set_property(v, t, k)
}
pub fn comp(cards: Vec<Card>) -> Card {
    CardBody::CompositeCard(Box::new(CompositeCard { ty: "block".into(), cards })).into()
}
pub fn call(name: &str, args: Vec<Card>) -> Card {
    CardBody::Call(Box::new(StaticJump { args: args.into(), function_name: name.to_string() })).into()
}
pub fn dyncall(f: Card, args: Vec<Card>) -> Card {
    CardBody::DynamicCall(Box::new(DynamicJump { args: args.into(), function: f })).into()
}
pub fn native(name: &str, args: Vec<Card>) -> Card {
    CardBody::CallNative(Box::new(CallNode { name: name.to_string(), args: args.into() })).into()
}
pub fn repeat(n: Card, i: Option<&str>, body: Card) -> Card {
    CardBody::Repeat(Box::new(Repeat { i: i.map(|s| s.to_string()), n, body })).into()
}
pub fn foreach(i: Option<&str>, k: Option<&str>, v: Option<&str>, it: Card, body: Card) -> Card {
    CardBody::ForEach(Box::new(ForEach {
        i: i.map(|s| s.to_string()),
        k: k.map(|s| s.to_string()),
        v: v.map(|s| s.to_string()),
        iterable: Box::new(it),
        body: Box::new(body),
    }))
    .into()
}
pub fn closure(params: &[&str], cards: Vec<Card>) -> Card {
    CardBody::Closure(Box::new(Function { arguments: params.iter().map(|s| s.to_string()).collect(), cards })).into()
}
pub fn discard(v: Card) -> Card {
    set("_", v)
}

const LOCAL_NAMES: [&str; 9] = ["a", "b", "c", "d", "x", "y", "z", "p", "q"];
const TABLE_KEYS: [&str; 5] = ["k", "n", "key", "value", "aa"];

impl<'r> ProgGen<'r> {
    pub fn new(rng: &'r mut Prng, cfg: GenCfg) -> Self {
        ProgGen { rng, cfg, funcs: Vec::new(), globals: Vec::new(), budget: 0 }
    }

    fn lit_int(&mut self) -> Card {
        let r = &mut *self.rng;
        let v = match r.below(if self.cfg.int_extremes { 40 } else { 30 }) {
            0..=9 => r.range(-3, 7),
            10..=19 => r.range(0, 3),
            20..=24 => r.range(-100, 100),
            25 => 1 << 31,
            26 => (1i64 << 53) + 1,
            27 => -(1i64 << 53) - 1,
            28 => 255,
            29 => 1_000_000_007,
            30..=32 => i64::MAX,
            33..=34 => i64::MIN,
            35 => i64::MAX - 1,
            36 => 3037000500, // ~ sqrt(i64::MAX)
            _ => r.range(-3, 7),
        };
        int(v)
    }
    fn lit_real(&mut self) -> Card {
        let r = &mut *self.rng;
        let v = match r.below(12) {
            0 => 0.5,
            1 => -1.5,
            2 => 2.0,
            3 => 0.0,
            4 => 1e10,
            5 => 0.1,
            6 => 3.25,
            7 => -0.25,
            8 => 9007199254740993.0,
            _ => r.range(-8, 8) as f64 / 4.0,
        };
        real(v)
    }
    fn lit_str(&mut self) -> Card {
        let r = &mut *self.rng;
        let s: String = match r.below(if self.cfg.strings_long { 16 } else { 12 }) {
            0 => "".into(),
            1 => "a".into(),
            2 => "ab".into(),
            3 => "ba".into(),
            4 => "abc".into(),
            5 => "héllo wörld ✓".into(),
            6 => "key".into(),
            7 => "k".into(),
            8 => "x y z".into(),
            9 => "🔥🔥".into(),
            10 => "0".into(),
            11 => "value".into(),
            12 => "s".repeat(252),
            13 => "t".repeat(253),
            14 => "u".repeat(300),
            _ => "v".repeat(100),
        };
        strc(&s)
    }

    /// expression of (roughly) the requested type; always value-producing
    fn expr(&mut self, env: &Env, ty: &Ty, depth: usize) -> Card {
        self.budget -= 1;
        let ill = self.rng.chance(self.cfg.ill_typed, 100);
        let ty = if ill { self.rand_ty() } else { ty.clone() };
        let leaf = depth == 0 || self.budget < 0 || self.rng.chance(1, 3);
        match &ty {
            Ty::Int => {
                let vars = env.vars_of(&Ty::Int);
                if leaf {
                    if !vars.is_empty() && self.rng.chance(3, 5) {
                        return read(self.rng.pick(&vars));
                    }
                    if self.rng.chance(1, 6) {
                        let g = self.globals_of(&Ty::Int);
                        if !g.is_empty() {
                            return read(self.rng.pick(&g));
                        }
                    }
                    return self.lit_int();
                }
                match self.rng.below(14) {
                    0..=3 => {
                        let op = *self.rng.pick(&["add", "sub", "mul", "add"]);
                        let a = self.expr(env, &Ty::Int, depth - 1);
                        let b = self.expr(env, &Ty::Int, depth - 1);
                        bin(op, a, b)
                    }
                    4 | 5 => {
                        let op = *self.rng.pick(&["less", "le", "eq", "ne"]);
                        let t = self.rand_scalar_ty();
                        let a = self.expr(env, &t, depth - 1);
                        let t2 = if self.rng.chance(2, 3) { t } else { self.rand_scalar_ty() };
                        let b = self.expr(env, &t2, depth - 1);
                        bin(op, a, b)
                    }
                    6 => {
                        let op = *self.rng.pick(&["and", "or", "xor"]);
                        let a = self.expr(env, &Ty::Any, depth - 1);
                        let b = self.expr(env, &Ty::Any, depth - 1);
                        bin(op, a, b)
                    }
                    7 => {
                        let a = self.expr(env, &Ty::Any, depth - 1);
                        un("not", a)
                    }
                    8 => {
                        let t = if self.rng.chance(1, 2) { Ty::Str } else { Ty::Table };
                        let a = self.expr(env, &t, depth - 1);
                        un("len", a)
                    }
                    9 => self.call_expr(env, &Ty::Int, depth),
                    10 => {
                        let c = self.expr(env, &Ty::Int, depth - 1);
                        let a = self.expr(env, &Ty::Int, depth - 1);
                        let b = self.expr(env, &Ty::Int, depth - 1);
                        ifelse(c, a, b)
                    }
                    11 => {
                        // mixed-kind arithmetic that still yields an integer: int op (nil | string | table)
                        let a = self.expr(env, &Ty::Int, depth - 1);
                        let t = self.rng.pick(&[Ty::Nil, Ty::Str, Ty::Table]).clone();
                        let b = self.expr(env, &t, depth - 1);
                        let op = *self.rng.pick(&["add", "sub", "mul"]);
                        if self.rng.chance(1, 2) {
                            bin(op, a, b)
                        } else {
                            bin(op, b, a)
                        }
                    }
                    12 => native("id1", vec![self.expr(env, &Ty::Int, depth - 1)]),
                    _ => native("in0", vec![]),
                }
            }
            Ty::Real => {
                let vars = env.vars_of(&Ty::Real);
                if leaf {
                    if !vars.is_empty() && self.rng.chance(1, 2) {
                        return read(self.rng.pick(&vars));
                    }
                    return self.lit_real();
                }
                match self.rng.below(6) {
                    0 | 1 => {
                        let op = *self.rng.pick(&["add", "sub", "mul", "div"]);
                        let a = self.expr(env, &Ty::Real, depth - 1);
                        let t = if self.rng.chance(1, 2) { Ty::Real } else { self.rand_scalar_ty() };
                        let b = self.expr(env, &t, depth - 1);
                        if self.rng.chance(1, 2) {
                            bin(op, a, b)
                        } else {
                            bin(op, b, a)
                        }
                    }
                    2 => {
                        let a = self.expr(env, &Ty::Int, depth - 1);
                        let b = self.expr(env, &Ty::Int, depth - 1);
                        bin("div", a, b)
                    }
                    3 => self.call_expr(env, &Ty::Real, depth),
                    4 => native("in1", vec![]),
                    _ => self.lit_real(),
                }
            }
            Ty::Str => {
                let vars = env.vars_of(&Ty::Str);
                if !vars.is_empty() && self.rng.chance(1, 2) {
                    return read(self.rng.pick(&vars));
                }
                if !leaf && self.rng.chance(1, 5) {
                    return self.call_expr(env, &Ty::Str, depth);
                }
                if !leaf && self.rng.chance(1, 6) {
                    let a = self.expr(env, &Ty::Any, depth - 1);
                    let b = self.expr(env, &Ty::Int, depth - 1);
                    return native("concat", vec![a, b]);
                }
                if self.rng.chance(1, 8) {
                    return native("in2", vec![]);
                }
                self.lit_str()
            }
            Ty::Table => {
                let vars = env.vars_of(&Ty::Table);
                if !vars.is_empty() && self.rng.chance(3, 4) {
                    return read(self.rng.pick(&vars));
                }
                let g = self.globals_of(&Ty::Table);
                if !g.is_empty() && self.rng.chance(1, 3) {
                    return read(self.rng.pick(&g));
                }
                if !leaf && self.rng.chance(1, 5) {
                    return self.call_expr(env, &Ty::Table, depth);
                }
                if !leaf && self.rng.chance(1, 6) {
                    let a = self.expr(env, &Ty::Int, depth - 1);
                    let b = self.expr(env, &Ty::Str, depth - 1);
                    return native("pair", vec![a, b]);
                }
                CardBody::CreateTable.into()
            }
            Ty::Nil => nil(),
            Ty::Func(ar) => {
                let vars = env.vars_of(&Ty::Func(*ar));
                if !vars.is_empty() && self.rng.chance(2, 3) {
                    return read(self.rng.pick(&vars));
                }
                let cands: Vec<FnSig> = self.funcs.iter().filter(|f| f.arity == *ar).cloned().enumerate().filter(|(i, _)| *i + 1 > env.fn_index || env.in_main).map(|(_, f)| f).collect();
                let later: Vec<FnSig> = self.callable_from(env).into_iter().filter(|f| f.arity == *ar).collect();
                let _ = cands;
                if !later.is_empty() {
                    let f = self.rng.pick(&later).clone();
                    return CardBody::Function(f.call_name.clone()).into();
                }
                if *ar == 1 {
                    return CardBody::NativeFunction("id1".into()).into();
                }
                nil()
            }
            Ty::Any => {
                let t = self.rand_ty();
                if matches!(t, Ty::Any) {
                    return self.lit_int();
                }
                if !leaf && self.cfg.tables > 0 && self.rng.chance(1, 8) {
                    // property read of a table: yields whatever was stored
                    let tb = self.expr(env, &Ty::Table, depth - 1);
                    let k = self.key_expr(env);
                    return bin("getprop", tb, k);
                }
                self.expr(env, &t, depth)
            }
        }
    }

    fn rand_scalar_ty(&mut self) -> Ty {
        self.rng.pick(&[Ty::Int, Ty::Int, Ty::Real, Ty::Str, Ty::Nil, Ty::Table]).clone()
    }
    fn rand_ty(&mut self) -> Ty {
        self.rng.pick(&[Ty::Int, Ty::Int, Ty::Real, Ty::Str, Ty::Nil, Ty::Table, Ty::Int]).clone()
    }
    fn globals_of(&self, ty: &Ty) -> Vec<String> {
        self.globals.iter().filter(|(_, t)| t == ty).map(|(n, _)| n.clone()).collect()
    }
    fn key_expr(&mut self, env: &Env) -> Card {
        match self.rng.below(6) {
            0 | 1 => strc(self.rng.pick(&TABLE_KEYS)),
            2 | 3 => int(self.rng.range(0, 4)),
            4 => {
                let v = env.vars_of(&Ty::Int);
                if v.is_empty() {
                    int(1)
                } else {
                    read(self.rng.pick(&v))
                }
            }
            _ => {
                if self.rng.chance(1, 3) {
                    nil()
                } else {
                    real(1.5)
                }
            }
        }
    }

    fn callable_from(&self, env: &Env) -> Vec<FnSig> {
        if env.in_main {
            self.funcs.clone()
        } else {
            self.funcs.iter().skip(env.fn_index + 1).cloned().collect()
        }
    }

    /// a call (static or dynamic) whose callee returns `ty`; falls back to a literal
    fn call_expr(&mut self, env: &Env, ty: &Ty, depth: usize) -> Card {
        let cands: Vec<FnSig> = self.callable_from(env).into_iter().filter(|f| &f.ret == ty).collect();
        if cands.is_empty() || self.budget < 0 {
            return match ty {
                Ty::Int => self.lit_int(),
                Ty::Real => self.lit_real(),
                Ty::Str => self.lit_str(),
                Ty::Table => CardBody::CreateTable.into(),
                _ => nil(),
            };
        }
        let f = self.rng.pick(&cands).clone();
        self.budget -= 3;
        let d = depth.saturating_sub(1).min(2);
        let args: Vec<Card> = f.params.iter().map(|t| self.expr(env, t, d)).collect();
        if self.cfg.dynamic_calls && self.rng.chance(1, 4) {
            let fv: Card = CardBody::Function(f.call_name.clone()).into();
            if self.cfg.reentry > 0 && f.arity <= 2 && self.rng.chance(self.cfg.reentry, 10) {
                // through a host function that re-enters the VM
                let mut a = vec![fv];
                a.extend(args);
                return native(["apply0", "apply1", "apply2"][f.arity], a);
            }
            return dyncall(fv, args);
        }
        call(&f.call_name, args)
    }

    fn cond(&mut self, env: &Env) -> Card {
        match self.rng.below(5) {
            0 => self.expr(env, &Ty::Any, 1),
            _ => {
                let op = *self.rng.pick(&["less", "le", "eq", "ne", "less"]);
                let a = self.expr(env, &Ty::Int, 1);
                let b = self.expr(env, &Ty::Int, 1);
                bin(op, a, b)
            }
        }
    }

    fn fresh_local(&mut self, env: &Env) -> Option<String> {
        let free: Vec<&str> = LOCAL_NAMES.iter().copied().filter(|n| !env.is_visible(n)).collect();
        if free.is_empty() {
            None
        } else {
            Some(self.rng.pick(&free).to_string())
        }
    }

    fn block(&mut self, env: &mut Env, n: usize) -> Vec<Card> {
        let mut out = Vec::new();
        for _ in 0..n {
            if self.budget < 0 {
                break;
            }
            out.extend(self.stmt(env));
        }
        out
    }

    /// one statement (possibly a couple of cards); leaves nothing on the value stack
    fn stmt(&mut self, env: &mut Env) -> Vec<Card> {
        self.budget -= 2;
        let c = &self.cfg;
        let w_closure = if env.closure_depth < 2 { c.closures } else { 0 };
        let weights = [
            14u32,              // 0 new local
            12,                 // 1 assign local / captured
            10,                 // 2 set global
            8,                  // 3 log
            7,                  // 4 if
            4,                  // 5 ifelse
            5,                  // 6 repeat
            4,                  // 7 while
            c.tables,           // 8 table mutation
            if c.tables > 0 { 5 } else { 0 }, // 9 foreach
            6,                  // 10 call for effect
            if env.in_main { 0 } else { 2 }, // 11 early return
            w_closure,          // 12 closure creation
            w_closure,          // 13 closure call
            1,                  // 14 comment
            c.stdlib,           // 15 stdlib call
        ];
        match self.rng.weighted(&weights) {
            0 => {
                if env.no_new_locals {
                    return self.assign_stmt(env);
                }
                let Some(name) = self.fresh_local(env) else { return self.assign_stmt(env) };
                let ty = self.rng.pick(&[Ty::Int, Ty::Int, Ty::Int, Ty::Real, Ty::Str, Ty::Table, Ty::Table]).clone();
                // (an Array leaves one value per element above the locals: at the end of `main`, which has no Return, the
                // scope exit then closes the wrong slots - so where closures may capture main's locals, main gets no Array)
                let use_array = self.cfg.array && ty == Ty::Table && env.loop_depth == 0 && env.closure_depth == 0 && !(env.in_main && self.cfg.closures > 0) && self.rng.chance(1, 3);
                let v = if use_array {
                    let n = self.rng.below(4);
                    let items = (0..n).map(|_| self.expr(env, &Ty::Any, 1)).collect();
                    CardBody::Array(items).into()
                } else {
                    self.expr(env, &ty, 3)
                };
                env.declare(&name, ty);
                vec![set(&name, v)]
            }
            1 => self.assign_stmt(env),
            2 => {
                if self.globals.is_empty() {
                    return self.assign_stmt(env);
                }
                let (g, t) = self.rng.pick(&self.globals).clone();
                let v = self.expr(env, &t, 3);
                vec![setg(&g, v)]
            }
            3 => {
                let n = self.rng.range(1, 3) as usize;
                let args: Vec<Card> = (0..n).map(|_| self.expr(env, &Ty::Any, 2)).collect();
                vec![discard(native(["log1", "log2", "log3"][n - 1], args))]
            }
            4 => {
                let c = self.cond(env);
                let k = 1 + self.rng.below(3);
                let body = self.nested_block(env, k);
                let op = if self.rng.chance(2, 3) { "iftrue" } else { "iffalse" };
                vec![bin(op, c, body)]
            }
            5 => {
                let c = self.cond(env);
                let k = 1 + self.rng.below(2);
                let a = self.nested_block(env, k);
                let k = 1 + self.rng.below(2);
                let b = self.nested_block(env, k);
                vec![ifelse(c, a, b)]
            }
            6 => {
                if env.loop_depth >= 2 {
                    return self.assign_stmt(env);
                }
                let n = match self.rng.below(12) {
                    0 => real(2.5),
                    1 => nil(),
                    2 => strc("abc"),
                    3 => int(0),
                    4 => int(-1),
                    5 => {
                        let v = env.vars_of(&Ty::Table);
                        if v.is_empty() {
                            int(2)
                        } else {
                            read(self.rng.pick(&v))
                        }
                    }
                    _ => int(self.rng.range(1, 4)),
                };
                let ivar = if self.rng.chance(2, 3) { Some(*self.rng.pick(&["i", "j", "a"])) } else { None };
                env.scopes.push(Vec::new());
                if let Some(i) = ivar {
                    env.declare(i, Ty::Int);
                }
                env.declare("_", Ty::Any);
                let saved = (env.no_new_locals, env.loop_depth);
                env.no_new_locals = false;
                env.loop_depth += 1;
                let mut cards = vec![set("_", nil())];
                let k = 1 + self.rng.below(3);
                cards.extend(self.block(env, k));
                env.no_new_locals = saved.0;
                env.loop_depth = saved.1;
                env.scopes.pop();
                vec![repeat(n, ivar, comp(cards))]
            }
            7 => {
                if env.no_new_locals || env.loop_depth >= 2 || env.while_counters >= 3 {
                    return self.assign_stmt(env);
                }
                let w = format!("w{}", env.while_counters);
                if env.is_visible(&w) {
                    return self.assign_stmt(env);
                }
                env.while_counters += 1;
                env.declare(&w, Ty::Nil); // typed Nil so that no random statement assigns it
                let n = self.rng.range(0, 4);
                let saved = (env.no_new_locals, env.loop_depth);
                env.no_new_locals = true;
                env.loop_depth += 1;
                let k = 1 + self.rng.below(3);
                let mut body = self.block(env, k);
                env.no_new_locals = saved.0;
                env.loop_depth = saved.1;
                body.push(set(&w, bin("add", read(&w), int(1))));
                vec![set(&w, int(0)), bin("while", bin("less", read(&w), int(n)), comp(body))]
            }
            8 => {
                let tabs: Vec<String> = env.vars_of(&Ty::Table).into_iter().filter(|t| !env.frozen.contains(t)).collect();
                let mut targets = tabs;
                if env.frozen.is_empty() {
                    targets.extend(self.globals_of(&Ty::Table));
                }
                if targets.is_empty() {
                    return self.assign_stmt(env);
                }
                let t = self.rng.pick(&targets).clone();
                match self.rng.below(6) {
                    0 | 1 => {
                        let v = self.expr(env, &Ty::Any, 2);
                        let k = self.key_expr(env);
                        vec![setprop(v, read(&t), k)]
                    }
                    2 | 3 => {
                        let v = self.expr(env, &Ty::Any, 2);
                        vec![bin("append", v, read(&t))]
                    }
                    4 => vec![discard(un("pop", read(&t)))],
                    _ => {
                        // shorthand property write  t.k = v
                        let v = self.expr(env, &Ty::Any, 2);
                        let k = *self.rng.pick(&TABLE_KEYS);
                        vec![set(&format!("{t}.{k}"), v)]
                    }
                }
            }
            9 => {
                if env.loop_depth >= 2 {
                    return self.assign_stmt(env);
                }
                let tabs = env.vars_of(&Ty::Table);
                if tabs.is_empty() {
                    return self.assign_stmt(env);
                }
                let t = self.rng.pick(&tabs).clone();
                let names = [
                    if self.rng.chance(1, 2) { Some(*self.rng.pick(&["i", "j"])) } else { None },
                    if self.rng.chance(2, 3) { Some(*self.rng.pick(&["k", "a"])) } else { None },
                    if self.rng.chance(2, 3) { Some(*self.rng.pick(&["v", "b"])) } else { None },
                ];
                env.scopes.push(Vec::new());
                // declaration order v, k, i
                if let Some(v) = names[2] {
                    env.declare(v, Ty::Any);
                }
                if let Some(k) = names[1] {
                    env.declare(k, Ty::Any);
                }
                if let Some(i) = names[0] {
                    env.declare(i, Ty::Int);
                }
                env.declare("_", Ty::Any);
                let saved = (env.no_new_locals, env.loop_depth);
                env.no_new_locals = false;
                env.loop_depth += 1;
                env.frozen.push(t.clone());
                let mut cards = vec![set("_", nil())];
                let n = 1 + self.rng.below(3);
                cards.extend(self.block(env, n));
                env.frozen.pop();
                env.no_new_locals = saved.0;
                env.loop_depth = saved.1;
                env.scopes.pop();
                vec![foreach(names[0], names[1], names[2], read(&t), comp(cards))]
            }
            10 => {
                let t = self.rng.pick(&[Ty::Int, Ty::Str, Ty::Table, Ty::Real]).clone();
                vec![discard(self.call_expr(env, &t, 2))]
            }
            11 => {
                let c = self.cond(env);
                let v = self.expr(env, &env.ret.clone(), 2);
                vec![bin("iftrue", c, un("ret", v))]
            }
            12 => self.closure_create(env),
            13 => self.closure_call(env),
            14 => vec![CardBody::Comment("note".into()).into()],
            _ => self.std_stmt(env),
        }
    }

    /// a standard-library call on a table variable, result logged or stored
    fn std_stmt(&mut self, env: &mut Env) -> Vec<Card> {
        let tabs = env.vars_of(&Ty::Table);
        if tabs.is_empty() || env.closure_depth > 0 {
            return self.assign_stmt(env);
        }
        let t = self.rng.pick(&tabs).clone();
        let f = *self.rng.pick(&["filter", "map", "any", "min", "max", "sorted", "to_array", "min_by_key", "max_by_key", "sorted_by_key"]);
        let mut inner = Env {
            scopes: vec![vec![]],
            captured: env.visible().into_iter().filter(|(n, _)| n != "_").collect(),
            in_main: false,
            fn_index: usize::MAX / 2,
            no_new_locals: false,
            frozen: {
                let mut fr = env.frozen.clone();
                fr.push(t.clone());
                fr
            },
            ret: Ty::Int,
            loop_depth: 2,
            closure_depth: 2,
            while_counters: 50,
        };
        let callc = match f {
            "min" | "max" | "sorted" | "to_array" => call(&format!("std.{f}"), vec![read(&t)]),
            "filter" | "map" | "any" => {
                // callback(key, value[, index])
                let three = self.rng.chance(1, 2);
                let params: Vec<&str> = if three { vec!["ck", "cv", "ci"] } else { vec!["ck", "cv"] };
                for p in &params {
                    inner.declare(p, Ty::Any);
                }
                let body = match self.rng.below(5) {
                    0 => read("cv"),
                    1 => bin("less", read("cv"), self.expr(&inner, &Ty::Int, 1)),
                    2 => native("concat", vec![read("ck"), read("cv")]),
                    3 => bin("add", read("cv"), int(1)),
                    _ => self.expr(&inner, &Ty::Any, 2),
                };
                call(&format!("std.{f}"), vec![closure(&params, vec![un("ret", body)]), read(&t)])
            }
            _ => {
                // key function (key, value)
                inner.declare("ck", Ty::Any);
                inner.declare("cv", Ty::Any);
                let body = match self.rng.below(5) {
                    0 => read("cv"),
                    1 => read("ck"),
                    2 => bin("sub", int(0), read("cv")),
                    3 => un("len", native("concat", vec![read("cv"), read("ck")])),
                    _ => bin("mul", read("cv"), int(2)),
                };
                call(&format!("std.{f}"), vec![closure(&["ck", "cv"], vec![un("ret", body)]), read(&t)])
            }
        };
        if !env.no_new_locals && self.rng.chance(1, 2) {
            if let Some(name) = self.fresh_local(env) {
                let ty = if matches!(f, "filter" | "map" | "sorted" | "to_array" | "sorted_by_key") { Ty::Table } else { Ty::Any };
                env.declare(&name, ty);
                return vec![set(&name, callc), discard(native("log1", vec![read(&name)]))];
            }
        }
        vec![discard(native("log1", vec![callc]))]
    }

    fn nested_block(&mut self, env: &mut Env, n: usize) -> Card {
        let saved = env.no_new_locals;
        env.no_new_locals = true;
        let cards = self.block(env, n);
        env.no_new_locals = saved;
        comp(cards)
    }

    fn assign_stmt(&mut self, env: &mut Env) -> Vec<Card> {
        let vars: Vec<(String, Ty)> = env
            .visible()
            .into_iter()
            .filter(|(n, t)| n != "_" && !matches!(t, Ty::Nil | Ty::Func(_) | Ty::Any) && !(t == &Ty::Table && env.frozen.contains(n)))
            .collect();
        if vars.is_empty() {
            let v = self.expr(env, &Ty::Int, 2);
            return vec![discard(v)];
        }
        let (n, t) = self.rng.pick(&vars).clone();
        let v = self.expr(env, &t, 3);
        vec![set(&n, v)]
    }

    // ------------------------------------------------------------ closures

    fn closure_create(&mut self, env: &mut Env) -> Vec<Card> {
        if env.no_new_locals {
            return self.assign_stmt(env);
        }
        let arity = self.rng.below(3);
        let fname = {
            let free: Vec<&str> = ["f", "g", "h", "cb"].iter().copied().filter(|n| !env.is_visible(n)).collect();
            if free.is_empty() {
                return self.closure_call(env);
            }
            self.rng.pick(&free).to_string()
        };
        let params: Vec<&str> = ["m", "n"][..arity].to_vec();
        let mut inner = Env {
            scopes: vec![params.iter().map(|p| (p.to_string(), Ty::Int)).collect()],
            captured: env.visible().into_iter().filter(|(n, _)| n != "_").collect(),
            in_main: false,
            fn_index: env.fn_index,
            no_new_locals: false,
            frozen: env.frozen.clone(),
            ret: Ty::Int,
            loop_depth: 0,
            closure_depth: env.closure_depth + 1,
            while_counters: env.while_counters + 10 * (env.closure_depth + 1),
        };
        // callable functions stay those of the enclosing function
        if env.in_main {
            inner.in_main = false;
            inner.fn_index = usize::MAX / 2; // closures in main do not call script functions by name (keeps call graph acyclic)
        }
        inner.declare("_", Ty::Any);
        let mut cards = vec![set("_", nil())];
        let n = 1 + self.rng.below(4);
        cards.extend(self.block(&mut inner, n));
        let ret = self.expr(&inner, &Ty::Int, 2);
        cards.push(un("ret", ret));
        let cl = closure(&params, cards);
        let ty = Ty::Func(arity);
        let mut out = Vec::new();
        match self.rng.below(5) {
            0 if !self.globals_of(&Ty::Any).is_empty() => {
                // stored in a global and in a local
                env.declare(&fname, ty);
                out.push(set(&fname, cl));
                let g = self.rng.pick(&self.globals_of(&Ty::Any)).clone();
                out.push(setg(&g, read(&fname)));
            }
            1 if !env.in_main && matches!(env.ret, Ty::Func(a) if a == arity) => {
                out.push(un("ret", cl));
            }
            _ => {
                env.declare(&fname, ty);
                out.push(set(&fname, cl));
            }
        }
        out
    }

    fn closure_call(&mut self, env: &mut Env) -> Vec<Card> {
        let fs: Vec<(String, Ty)> = env.visible().into_iter().filter(|(_, t)| matches!(t, Ty::Func(_))).collect();
        if fs.is_empty() {
            return self.assign_stmt(env);
        }
        let (f, t) = self.rng.pick(&fs).clone();
        let Ty::Func(ar) = t else { unreachable!() };
        let args: Vec<Card> = (0..ar).map(|_| self.expr(env, &Ty::Int, 2)).collect();
        let callc = if self.cfg.reentry > 0 && ar <= 2 && self.rng.chance(self.cfg.reentry, 12) {
            let mut a = vec![read(&f)];
            a.extend(args);
            native(["apply0", "apply1", "apply2"][ar], a)
        } else {
            dyncall(read(&f), args)
        };
        // observe the result
        match self.rng.below(3) {
            0 => vec![discard(native("log1", vec![callc]))],
            1 => {
                let ints = env.vars_of(&Ty::Int);
                if ints.is_empty() {
                    vec![discard(callc)]
                } else {
                    vec![set(self.rng.pick(&ints), callc)]
                }
            }
            _ => vec![discard(callc)],
        }
    }

    // ------------------------------------------------------------ whole programs

    fn gen_function(&mut self, idx: usize, sig: &FnSig) -> Function {
        let pnames = ["p0", "p1", "p2", "p3"];
        let mut env = Env {
            scopes: vec![sig.params.iter().enumerate().map(|(i, t)| (pnames[i].to_string(), t.clone())).collect()],
            captured: vec![],
            in_main: false,
            fn_index: idx,
            no_new_locals: false,
            frozen: vec![],
            ret: sig.ret.clone(),
            loop_depth: 0,
            closure_depth: 0,
            while_counters: 0,
        };
        env.declare("_", Ty::Any);
        let mut cards = vec![set("_", nil())];
        let n = 1 + self.rng.below(self.cfg.max_stmts);
        self.budget = 60;
        cards.extend(self.block(&mut env, n));
        if !matches!(sig.ret, Ty::Nil) || self.rng.chance(1, 2) {
            let v = self.expr(&env, &sig.ret, 2);
            cards.push(un("ret", v));
        }
        Function { arguments: pnames[..sig.arity].iter().map(|s| s.to_string()).collect(), cards }
    }

    pub fn gen_program(&mut self) -> Module {
        // globals with fixed types, all initialised in main's prologue
        let gtys = [Ty::Int, Ty::Int, Ty::Real, Ty::Str, Ty::Table, Ty::Any, Ty::Any];
        // now and then a program has many globals (the id tables grow) with names from a word pool that contains
        // pairs of distinct names with equal 32-bit FNV-1a hashes
        let many = self.rng.chance(1, 6);
        let ng = if many { self.rng.range(8, 45) as usize } else { self.rng.range(2, 7) as usize };
        const WORDS: [&str; 14] = ["total", "count", "costarring", "liquid", "declinate", "macallums", "altarage", "zinke", "altarages", "zinkes", "score", "x", "Y2", "a_b"];
        let mut names: Vec<String> = Vec::new();
        for i in 0..ng {
            let mut n = if i >= 7 && self.rng.chance(1, 3) { self.rng.pick(&WORDS).to_string() } else if i >= 7 && self.rng.chance(1, 2) { format!("var_{i}") } else { format!("g{i}") };
            if names.contains(&n) {
                n = format!("g{i}");
            }
            names.push(n);
        }
        self.globals = names.into_iter().enumerate().map(|(i, n)| (n, if i < 7 { gtys[i].clone() } else { gtys[(i * 5 + 1) % 7].clone() })).collect();
        let nf = self.rng.below(self.cfg.max_funcs + 1);
        let use_sub = self.cfg.submodule && nf >= 2 && self.rng.chance(1, 3);
        self.funcs.clear();
        for i in 0..nf {
            let arity = self.rng.below(4).min(if self.rng.chance(1, 2) { 2 } else { 3 });
            let params = (0..arity).map(|_| self.rng.pick(&[Ty::Int, Ty::Int, Ty::Real, Ty::Str, Ty::Table]).clone()).collect();
            let ret = self.rng.pick(&[Ty::Int, Ty::Int, Ty::Int, Ty::Real, Ty::Str, Ty::Table, Ty::Nil]).clone();
            let in_sub = use_sub && i % 2 == 1;
            let name = format!("f{i}");
            let call_name = if in_sub { format!("lib.{name}") } else { name.clone() };
            self.funcs.push(FnSig { name, call_name, arity, params, ret, in_sub });
        }
        let sigs = self.funcs.clone();
        let mut root = Module::default();
        let mut sub = Module::default();
        // main
        let mut env = Env {
            scopes: vec![vec![]],
            captured: vec![],
            in_main: true,
            fn_index: 0,
            no_new_locals: false,
            frozen: vec![],
            ret: Ty::Nil,
            loop_depth: 0,
            closure_depth: 0,
            while_counters: 0,
        };
        let mut cards = Vec::new();
        for (g, t) in self.globals.clone() {
            let v = match t {
                Ty::Int => int(self.rng.range(0, 5)),
                Ty::Real => real(1.5),
                Ty::Str => strc("g"),
                Ty::Table => CardBody::CreateTable.into(),
                _ => nil(),
            };
            cards.push(setg(&g, v));
        }
        env.declare("_", Ty::Any);
        cards.push(set("_", nil()));
        self.budget = 90;
        let n = 2 + self.rng.below(self.cfg.max_stmts + 2);
        cards.extend(self.block(&mut env, n));
        // make the final state of locals observable
        for (name, t) in env.visible() {
            if name != "_" && !matches!(t, Ty::Nil) && self.rng.chance(1, 2) {
                cards.push(discard(native("log1", vec![read(&name)])));
            }
        }
        if self.rng.chance(1, 10) {
            cards.push(CardBody::Abort.into());
        }
        // function bodies: inside a submodule the sibling functions are called by their short name
        let mut bodies = Vec::new();
        for (i, s) in sigs.iter().enumerate() {
            // names as seen from the function's own module
            let saved = self.funcs.clone();
            if s.in_sub {
                for f in self.funcs.iter_mut() {
                    if f.in_sub {
                        f.call_name = f.name.clone();
                    }
                }
            }
            bodies.push(self.gen_function(i, s));
            self.funcs = saved;
        }
        // main is not necessarily the first function of the module
        let main_pos = self.rng.below(sigs.iter().filter(|s| !s.in_sub).count() + 1);
        let mut root_fns: Vec<(String, Function)> = Vec::new();
        for (s, b) in sigs.iter().zip(bodies) {
            if s.in_sub {
                sub.functions.push((s.name.clone(), b));
            } else {
                root_fns.push((s.name.clone(), b));
            }
        }
        root_fns.insert(main_pos.min(root_fns.len()), ("main".to_string(), Function { arguments: vec![], cards }));
        root.functions = root_fns;
        if use_sub {
            root.submodules.push(("lib".to_string(), sub));
        }
        root
    }
}
