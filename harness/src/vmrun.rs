//! Running compiled programs in the real VM with harness natives, and observing the outcome.
use crate::dval::{deep, err_kind, DVal};
use crate::refsem::NativeSpec;
use cao_lang::compiler::{compile, CompileOptions, Module};
use cao_lang::prelude::*;
use std::collections::HashMap;

#[derive(Default)]
pub struct Aux {
    pub log: Vec<(String, Vec<DVal>)>,
    pub inputs: Vec<DVal>,
    /// nesting depth of natives that re-entered the VM
    pub reentry_depth: u32,
    pub max_reentry_depth: u32,
    pub native_calls: u64,
}

type NR = Result<Value, ExecutionErrorPayload>;

fn log1(vm: &mut Vm<Aux>, a: Value) -> NR {
    vm.auxiliary_data.native_calls += 1;
    vm.auxiliary_data.log.push(("log1".into(), vec![deep(a)]));
    Ok(Value::Nil)
}
fn log2(vm: &mut Vm<Aux>, a: Value, b: Value) -> NR {
    vm.auxiliary_data.native_calls += 1;
    vm.auxiliary_data.log.push(("log2".into(), vec![deep(a), deep(b)]));
    Ok(Value::Nil)
}
fn log3(vm: &mut Vm<Aux>, a: Value, b: Value, c: Value) -> NR {
    vm.auxiliary_data.native_calls += 1;
    vm.auxiliary_data.log.push(("log3".into(), vec![deep(a), deep(b), deep(c)]));
    Ok(Value::Nil)
}
fn id1(vm: &mut Vm<Aux>, a: Value) -> NR {
    vm.auxiliary_data.native_calls += 1;
    Ok(a)
}
fn input(vm: &mut Vm<Aux>, i: usize) -> NR {
    vm.auxiliary_data.native_calls += 1;
    let v = vm.auxiliary_data.inputs.get(i).cloned();
    Ok(match v {
        Some(DVal::Int(x)) => Value::Integer(x),
        Some(DVal::Real(b)) => Value::Real(f64::from_bits(b)),
        Some(DVal::Str(s)) => Value::Object(vm.init_string(&s)?.into_inner()),
        _ => Value::Nil,
    })
}
fn in0(vm: &mut Vm<Aux>) -> NR {
    input(vm, 0)
}
fn in1(vm: &mut Vm<Aux>) -> NR {
    input(vm, 1)
}
fn in2(vm: &mut Vm<Aux>) -> NR {
    input(vm, 2)
}
fn reenter(vm: &mut Vm<Aux>, f: Value, args: &[Value]) -> NR {
    vm.auxiliary_data.native_calls += 1;
    vm.auxiliary_data.reentry_depth += 1;
    let d = vm.auxiliary_data.reentry_depth;
    if d > vm.auxiliary_data.max_reentry_depth {
        vm.auxiliary_data.max_reentry_depth = d;
    }
    for a in args {
        vm.stack_push(*a)?;
    }
    let r = vm.run_function(f);
    vm.auxiliary_data.reentry_depth -= 1;
    r
}
fn apply0(vm: &mut Vm<Aux>, f: Value) -> NR {
    reenter(vm, f, &[])
}
fn apply1(vm: &mut Vm<Aux>, f: Value, a: Value) -> NR {
    reenter(vm, f, &[a])
}
fn apply2(vm: &mut Vm<Aux>, f: Value, a: Value, b: Value) -> NR {
    reenter(vm, f, &[a, b])
}
/// a host function that survives a failing callback: the error is swallowed, nil is returned
fn try1(vm: &mut Vm<Aux>, f: Value, a: Value) -> NR {
    match reenter(vm, f, &[a]) {
        Ok(v) => Ok(v),
        Err(_) => Ok(Value::Nil),
    }
}
/// calls `factory()` and then calls what it returned with `x`: the returned function value (a closure, typically) is
/// held by nothing but this Rust local and, while it runs, by its own call frame
fn chain2(vm: &mut Vm<Aux>, factory: Value, x: Value) -> NR {
    let c = reenter(vm, factory, &[])?;
    reenter(vm, c, &[x])
}
/// a host function that tries a failing callback once more before giving up (nil)
fn retry1(vm: &mut Vm<Aux>, f: Value, a: Value) -> NR {
    match reenter(vm, f, &[a]) {
        Ok(v) => Ok(v),
        Err(_) => match reenter(vm, f, &[a]) {
            Ok(v) => Ok(v),
            Err(_) => Ok(Value::Nil),
        },
    }
}
fn fail(vm: &mut Vm<Aux>) -> NR {
    vm.auxiliary_data.native_calls += 1;
    Err(ExecutionErrorPayload::invalid_argument("the host function failed on purpose"))
}
fn pair(vm: &mut Vm<Aux>, a: Value, b: Value) -> NR {
    vm.auxiliary_data.native_calls += 1;
    // written the way a host would: the new table is guarded, the arguments are just used
    let mut t = vm.init_table()?;
    t.as_table_mut().unwrap().insert(Value::Integer(0), a)?;
    t.as_table_mut().unwrap().insert(Value::Integer(1), b)?;
    Ok(Value::Object(t.into_inner()))
}
fn wrap_n(vm: &mut Vm<Aux>, args: &[Value]) -> NR {
    vm.auxiliary_data.native_calls += 1;
    // the table is allocated first (a collection may run here); the arguments are used afterwards
    let mut t = vm.init_table()?;
    for (i, a) in args.iter().enumerate() {
        t.as_table_mut().unwrap().insert(Value::Integer(i as i64), *a)?;
    }
    Ok(Value::Object(t.into_inner()))
}
fn wrap1(vm: &mut Vm<Aux>, a: Value) -> NR {
    wrap_n(vm, &[a])
}
fn wrap3(vm: &mut Vm<Aux>, a: Value, b: Value, c: Value) -> NR {
    wrap_n(vm, &[a, b, c])
}
fn wrap4(vm: &mut Vm<Aux>, a: Value, b: Value, c: Value, d: Value) -> NR {
    wrap_n(vm, &[a, b, c, d])
}
fn keep1(vm: &mut Vm<Aux>, f: Value, x: Value) -> NR {
    let r = reenter(vm, f, &[x])?;
    // the callee's result lives only here: guard it while the table is allocated; the argument is just used
    let _g = match r {
        Value::Object(o) => Some(cao_lang::vm::runtime::cao_lang_object::ObjectGcGuard::new(o)),
        _ => None,
    };
    let mut t = vm.init_table()?;
    t.as_table_mut().unwrap().insert(Value::Integer(0), r)?;
    t.as_table_mut().unwrap().insert(Value::Integer(1), x)?;
    Ok(Value::Object(t.into_inner()))
}
fn concat(vm: &mut Vm<Aux>, a: Value, b: Value) -> NR {
    vm.auxiliary_data.native_calls += 1;
    let s = format!("{}|{}", deep(a).short(), deep(b).short());
    Ok(Value::Object(vm.init_string(&s)?.into_inner()))
}

/// the natives every program engine registers, with their reference specification
pub fn native_specs() -> HashMap<String, NativeSpec> {
    let mut m = HashMap::new();
    m.insert("log1".to_string(), NativeSpec::Log(1));
    m.insert("log2".to_string(), NativeSpec::Log(2));
    m.insert("log3".to_string(), NativeSpec::Log(3));
    m.insert("id1".to_string(), NativeSpec::Id);
    m.insert("in0".to_string(), NativeSpec::Input(0));
    m.insert("in1".to_string(), NativeSpec::Input(1));
    m.insert("in2".to_string(), NativeSpec::Input(2));
    m.insert("apply0".to_string(), NativeSpec::Apply(0));
    m.insert("apply1".to_string(), NativeSpec::Apply(1));
    m.insert("apply2".to_string(), NativeSpec::Apply(2));
    m.insert("fail".to_string(), NativeSpec::Fail);
    m.insert("pair".to_string(), NativeSpec::Pair);
    m.insert("wrap1".to_string(), NativeSpec::Wrap(1));
    m.insert("wrap3".to_string(), NativeSpec::Wrap(3));
    m.insert("wrap4".to_string(), NativeSpec::Wrap(4));
    m.insert("keep1".to_string(), NativeSpec::Keep);
    m.insert("try1".to_string(), NativeSpec::Try);
    m.insert("chain2".to_string(), NativeSpec::Chain2);
    m.insert("concat".to_string(), NativeSpec::Concat);
    m
}

pub fn register_natives(vm: &mut Vm<Aux>) {
    vm.register_native_function("log1", into_f1(log1)).unwrap();
    vm.register_native_function("log2", into_f2(log2)).unwrap();
    vm.register_native_function("log3", into_f3(log3)).unwrap();
    vm.register_native_function("id1", into_f1(id1)).unwrap();
    vm.register_native_function("in0", in0).unwrap();
    vm.register_native_function("in1", in1).unwrap();
    vm.register_native_function("in2", in2).unwrap();
    vm.register_native_function("apply0", into_f1(apply0)).unwrap();
    vm.register_native_function("apply1", into_f2(apply1)).unwrap();
    vm.register_native_function("apply2", into_f3(apply2)).unwrap();
    vm.register_native_function("fail", fail).unwrap();
    vm.register_native_function("pair", into_f2(pair)).unwrap();
    vm.register_native_function("wrap1", into_f1(wrap1)).unwrap();
    vm.register_native_function("wrap3", into_f3(wrap3)).unwrap();
    vm.register_native_function("wrap4", into_f4(wrap4)).unwrap();
    vm.register_native_function("keep1", into_f2(keep1)).unwrap();
    vm.register_native_function("try1", into_f2(try1)).unwrap();
    vm.register_native_function("retry1", into_f2(retry1)).unwrap();
    vm.register_native_function("chain2", into_f2(chain2)).unwrap();
    vm.register_native_function("concat", into_f2(concat)).unwrap();
}

#[derive(Debug, Clone, PartialEq)]
pub struct VmOutcome {
    pub result: String,
    pub trace: Vec<Trace2>,
    pub globals: Vec<(String, DVal)>,
    pub log: Vec<(String, Vec<DVal>)>,
    pub dispatched: u64,
    pub gc_count: u64,
    pub max_reentry_depth: u32,
}

#[derive(Debug, Clone, PartialEq)]
pub struct Trace2 {
    pub namespace: Vec<String>,
    pub function: usize,
    pub indices: Vec<u32>,
}

pub struct VmConfig {
    pub max_instr: u64,
    pub suppress_gc: bool,
    pub memory_limit: Option<usize>,
    pub stack_size: Option<(usize, usize)>,
}

impl Default for VmConfig {
    fn default() -> Self {
        // collections are suppressed in the behavioural checks (C02 owns them), so give the heap room
        VmConfig { max_instr: 2_000_000, suppress_gc: true, memory_limit: Some(256 << 20), stack_size: None }
    }
}

pub fn new_vm(cfg: &VmConfig, inputs: &[DVal]) -> Vm<'static, Aux> {
    let mut vm = Vm::new(Aux { inputs: inputs.to_vec(), ..Default::default() }).expect("vm");
    if let Some((vs, cs)) = cfg.stack_size {
        let lim = cfg.memory_limit.unwrap_or(400 * 1024);
        vm.runtime_data = cao_lang::vm::runtime::RuntimeData::new(lim, vs, cs).expect("runtime data");
    } else if let Some(l) = cfg.memory_limit {
        vm.runtime_data.set_memory_limit(l);
    }
    vm.max_instr = cfg.max_instr;
    if cfg.suppress_gc {
        vm.runtime_data
            .verif_allocator()
            .next_gc
            .store(usize::MAX, std::sync::atomic::Ordering::Relaxed);
    }
    register_natives(&mut vm);
    vm
}

pub fn global_names(program: &CaoCompiledProgram) -> Vec<String> {
    let mut names: Vec<String> = program.variables.names.iter().map(|(_, n)| n.clone()).collect();
    names.sort();
    names
}

pub fn observe(vm: &Vm<Aux>, program: &CaoCompiledProgram, result: &Result<(), ExecutionError>) -> VmOutcome {
    let mut globals = Vec::new();
    for n in global_names(program) {
        let v = vm.read_var_by_name(&n, &program.variables).unwrap_or(Value::Nil);
        globals.push((n, deep(v)));
    }
    let (res, trace) = match result {
        Ok(()) => ("Ok".to_string(), vec![]),
        Err(e) => (
            err_kind(&e.payload),
            e.trace
                .iter()
                .map(|t| Trace2 {
                    namespace: t.namespace.iter().map(|s| s.to_string()).collect(),
                    function: t.index.function,
                    indices: t.index.card_index.indices.iter().copied().collect(),
                })
                .collect(),
        ),
    };
    VmOutcome {
        result: res,
        trace,
        globals,
        log: vm.auxiliary_data.log.clone(),
        dispatched: vm.runtime_data.verif.dispatched,
        gc_count: vm.runtime_data.verif.gc_count,
        max_reentry_depth: vm.auxiliary_data.max_reentry_depth,
    }
}

pub fn compile_module(m: &Module) -> Result<CaoCompiledProgram, CompilationError> {
    compile(m.clone(), CompileOptions::new())
}

/// compile + run on a fresh VM
pub fn run_module(m: &Module, cfg: &VmConfig, inputs: &[DVal]) -> Result<(VmOutcome, CaoCompiledProgram), CompilationError> {
    let program = compile_module(m)?;
    let mut vm = new_vm(cfg, inputs);
    let r = vm.run(&program);
    let out = observe(&vm, &program, &r);
    Ok((out, program))
}
