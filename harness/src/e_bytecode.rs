//! C10: every compiler output is decoded front to back and validated by an independent verifier.
//! The opcode table below is written from the `Instruction` doc comments; it is cross-checked at start-up
//! against the crate's own table (hook H7) and per program against `disassemble_string`.
use crate::gen::{GenCfg, ProgGen};
use crate::prng::Prng;
use crate::runner::{Engine, Obs, Tier, Verdict};
use crate::shrink::shrink_module;
use cao_lang::compiler::{compile, CompileOptions, Module};
use cao_lang::prelude::*;
use cao_lang::verif_hooks::verif_instruction_table;
use serde::{Deserialize, Serialize};
use std::collections::{BTreeMap, BTreeSet};

#[derive(Clone, Serialize, Deserialize)]
pub struct Case {
    pub module: Module,
    pub source: String,
}

pub struct BytecodeEngine {}

/// (name, operand bytes)
const OPS: [(&str, usize); 47] = [
    ("Add", 0),
    ("Sub", 0),
    ("Mul", 0),
    ("Div", 0),
    ("CallNative", 4),
    ("ScalarInt", 8),
    ("ScalarFloat", 8),
    ("ScalarNil", 0),
    ("StringLiteral", 4),
    ("CopyLast", 0),
    ("Exit", 0),
    ("CallFunction", 0),
    ("Equals", 0),
    ("NotEquals", 0),
    ("Less", 0),
    ("LessOrEq", 0),
    ("Pop", 0),
    ("SetGlobalVar", 4),
    ("ReadGlobalVar", 4),
    ("SetLocalVar", 4),
    ("ReadLocalVar", 4),
    ("ClearStack", 0),
    ("Return", 0),
    ("SwapLast", 0),
    ("And", 0),
    ("Or", 0),
    ("Xor", 0),
    ("Not", 0),
    ("Goto", 4),
    ("GotoIfTrue", 4),
    ("GotoIfFalse", 4),
    ("InitTable", 0),
    ("GetProperty", 0),
    ("SetProperty", 0),
    ("Len", 0),
    ("BeginForEach", 20),
    ("ForEach", 20),
    ("FunctionPointer", 8),
    ("NativeFunctionPointer", 4),
    ("NthRow", 0),
    ("AppendTable", 0),
    ("PopTable", 0),
    ("Closure", 8),
    ("SetUpvalue", 4),
    ("ReadUpvalue", 4),
    ("RegisterUpvalue", 2),
    ("CloseUpvalue", 0),
];

fn u32_at(b: &[u8], i: usize) -> u32 {
    u32::from_le_bytes([b[i], b[i + 1], b[i + 2], b[i + 3]])
}

pub fn verify(p: &CaoCompiledProgram, obs: &mut Obs) -> Result<(), (String, String)> {
    let bc = &p.bytecode;
    let e = |what: &str, d: String| Err((what.to_string(), d));
    if bc.is_empty() {
        return e("empty", "empty bytecode".into());
    }
    // 1. linear decode
    let mut starts: BTreeSet<usize> = BTreeSet::new();
    let mut instrs: Vec<(usize, usize)> = Vec::new();
    let mut i = 0;
    while i < bc.len() {
        let op = bc[i] as usize;
        if op >= OPS.len() {
            return e("unknown-opcode", format!("byte {op} at offset {i} is not an instruction"));
        }
        let w = OPS[op].1;
        if i + 1 + w > bc.len() {
            return e("truncated-operand", format!("{} at offset {i} needs {w} operand bytes, {} are left", OPS[op].0, bc.len() - i - 1));
        }
        starts.insert(i);
        instrs.push((i, op));
        obs.inc(&format!("op:{}", OPS[op].0));
        i += 1 + w;
    }
    let (_, last_op) = *instrs.last().unwrap();
    if OPS[last_op].0 != "Exit" {
        return e("no-final-exit", format!("the last instruction is {}, not Exit", OPS[last_op].0));
    }
    // label positions
    let mut label_handles = BTreeSet::new();
    for (h, l) in p.labels.0.iter() {
        label_handles.insert(h.value());
        if !starts.contains(&(l.pos as usize)) {
            return e("label-not-at-instruction", format!("label {} points to offset {}, which is not the first byte of an instruction (program length {})", h.value(), l.pos, bc.len()));
        }
    }
    let nvars = p.variables.ids.len();
    for (pos, op) in instrs.iter().copied() {
        let name = OPS[op].0;
        let a = pos + 1;
        match name {
            "Goto" | "GotoIfTrue" | "GotoIfFalse" => {
                let t = u32_at(bc, a) as i32;
                if t < 0 || !starts.contains(&(t as usize)) {
                    return e("jump-target", format!("{name} at offset {pos} jumps to {t}, which is not the first byte of an instruction (placeholder left unpatched?)"));
                }
            }
            "FunctionPointer" | "Closure" => {
                let h = u32_at(bc, a);
                if !label_handles.contains(&h) {
                    return e("unknown-function-handle", format!("{name} at offset {pos} refers to handle {h}, which has no label"));
                }
                let arity = u32_at(bc, a + 4);
                if arity > 255 {
                    return e("arity", format!("{name} at offset {pos} declares arity {arity}"));
                }
            }
            "StringLiteral" | "NativeFunctionPointer" => {
                let off = u32_at(bc, a) as usize;
                let d = &p.data;
                if off + 4 > d.len() {
                    return e("string-operand", format!("{name} at offset {pos}: string offset {off} is outside the data section ({} bytes)", d.len()));
                }
                let len = u32_at(d, off) as usize;
                if off + 4 + len > d.len() {
                    return e("string-operand", format!("{name} at offset {pos}: string at {off} with length {len} runs past the data section ({} bytes)", d.len()));
                }
                if std::str::from_utf8(&d[off + 4..off + 4 + len]).is_err() {
                    return e("string-operand", format!("{name} at offset {pos}: string at {off} is not valid UTF-8"));
                }
            }
            "SetLocalVar" | "ReadLocalVar" | "SetUpvalue" | "ReadUpvalue" => {
                let idx = u32_at(bc, a);
                if idx >= 255 {
                    return e("index-range", format!("{name} at offset {pos} uses index {idx} (limit 255)"));
                }
            }
            "BeginForEach" | "ForEach" => {
                for k in 0..5 {
                    let idx = u32_at(bc, a + 4 * k);
                    if idx >= 255 {
                        return e("index-range", format!("{name} at offset {pos} uses local index {idx} (limit 255)"));
                    }
                }
            }
            "RegisterUpvalue" => {
                let flag = bc[a + 1];
                if flag > 1 {
                    return e("upvalue-flag", format!("RegisterUpvalue at offset {pos} has is_local flag {flag}"));
                }
            }
            "SetGlobalVar" | "ReadGlobalVar" => {
                let id = u32_at(bc, a) as usize;
                if id >= nvars {
                    return e("global-id", format!("{name} at offset {pos} uses global id {id}, only {nvars} variables are declared"));
                }
            }
            _ => {}
        }
        // trace entries
        if !matches!(name, "Pop" | "CloseUpvalue") && p.trace.get(&(pos as u32)).is_none() {
            return e("missing-trace", format!("{name} at offset {pos} can fail but has no source-trace entry"));
        }
    }
    for (k, _) in p.trace.iter() {
        if !starts.contains(&(*k as usize)) {
            return e("trace-key", format!("trace entry for offset {k}, which is not the first byte of an instruction"));
        }
    }
    // closures: `Goto END; L: body ... Return; END: Closure handle arity; (CopyLast RegisterUpvalue idx is_local)*`
    // every upvalue access inside a closure body uses an index below the number of upvalues that closure registers;
    // a RegisterUpvalue that forwards an upvalue of the enclosing closure (is_local = 0) names one the enclosing closure has
    let label_pos: BTreeMap<u32, usize> = p.labels.0.iter().map(|(h, l)| (h.value(), l.pos as usize)).collect();
    let mut ranges: Vec<(usize, usize, usize, Vec<(usize, u8, u8)>)> = Vec::new(); // (body start, Closure instr pos, registered, registrations)
    for (n, (pos, op)) in instrs.iter().copied().enumerate() {
        if OPS[op].0 != "Closure" {
            continue;
        }
        let h = u32_at(bc, pos + 1);
        let start = label_pos[&h];
        let mut regs = Vec::new();
        let mut m = n + 1;
        while m + 1 < instrs.len() && OPS[instrs[m].1].0 == "CopyLast" && OPS[instrs[m + 1].1].0 == "RegisterUpvalue" {
            let rp = instrs[m + 1].0;
            regs.push((rp, bc[rp + 1], bc[rp + 2]));
            m += 2;
        }
        if start >= pos {
            return e("closure-layout", format!("Closure at offset {pos}: its body (label at {start}) does not precede it"));
        }
        ranges.push((start, pos, regs.len(), regs));
    }
    let innermost = |q: usize| -> Option<usize> {
        let mut best: Option<usize> = None;
        for (i, (a, b, _, _)) in ranges.iter().enumerate() {
            if *a <= q && q < *b && best.map(|j| ranges[j].1 - ranges[j].0 > b - a).unwrap_or(true) {
                best = Some(i);
            }
        }
        best
    };
    for (pos, op) in instrs.iter().copied() {
        let name = OPS[op].0;
        if name == "ReadUpvalue" || name == "SetUpvalue" {
            let idx = u32_at(bc, pos + 1) as usize;
            match innermost(pos) {
                None => return e("upvalue-outside-closure", format!("{name} at offset {pos} is not inside the body of any closure")),
                Some(r) => {
                    if idx >= ranges[r].2 {
                        return e("upvalue-index", format!("{name} at offset {pos} uses upvalue {idx}, the closure created at offset {} registers {} upvalues", ranges[r].1, ranges[r].2));
                    }
                }
            }
            obs.inc("upvalue_accesses_checked");
        }
    }
    for (_, cpos, _, regs) in ranges.iter() {
        for (rp, idx, is_local) in regs.iter().copied() {
            if is_local == 0 {
                match innermost(*cpos) {
                    None => return e("upvalue-forward", format!("RegisterUpvalue at offset {rp} forwards upvalue {idx} of the enclosing closure, but the Closure at offset {cpos} is not inside a closure body")),
                    Some(r) => {
                        if idx as usize >= ranges[r].2 {
                            return e("upvalue-forward", format!("RegisterUpvalue at offset {rp} forwards upvalue {idx}, the enclosing closure (created at offset {}) registers {}", ranges[r].1, ranges[r].2));
                        }
                    }
                }
                obs.inc("upvalue_forwards_checked");
            }
        }
    }
    // ids <-> names
    let mut seen_ids = BTreeSet::new();
    let mut by_id: BTreeMap<u32, u32> = BTreeMap::new();
    for (h, id) in p.variables.ids.iter() {
        let idv: u32 = bytemuck::cast(*id);
        if !seen_ids.insert(idv) {
            return e("variables", format!("global id {idv} is assigned to two names"));
        }
        by_id.insert(idv, h.value());
    }
    if p.variables.names.len() != p.variables.ids.len() {
        return e("variables", format!("{} ids but {} names", p.variables.ids.len(), p.variables.names.len()));
    }
    for (idv, h) in by_id.iter() {
        match p.variables.names.get(Handle::from_u32(*idv)) {
            None => return e("variables", format!("global id {idv} has no name entry")),
            Some(n) => {
                // the handle is the name's hash, or - when that one belongs to a different name - the hash of a later probe
                let fnv = |bytes: &[u8]| -> u32 {
                    let mut x: u32 = 2166136261;
                    for b in bytes {
                        x = (x ^ *b as u32).wrapping_mul(16777619);
                    }
                    if x == 0 {
                        0x9E3779B9
                    } else {
                        x
                    }
                };
                let mut attempt = 0u32;
                loop {
                    let hv = if attempt == 0 {
                        fnv(n.as_bytes())
                    } else {
                        let mut b = n.as_bytes().to_vec();
                        b.extend([0xff, attempt as u8]);
                        fnv(&b)
                    };
                    if hv == *h {
                        break;
                    }
                    // an earlier probe may only be skipped because another name holds it
                    let taken_by_other = by_id.iter().any(|(oid, oh)| *oh == hv && oid != idv);
                    if !taken_by_other || attempt >= 255 {
                        return e("variables", format!("global id {idv} is named {n:?}; probe {attempt} of that name is handle {hv}, which is not the handle {h} that maps to the id and is not held by another name"));
                    }
                    attempt += 1;
                }
                if attempt > 0 {
                    obs.inc("colliding_global_names");
                }
                if p.variable_id(n).map(|v| bytemuck::cast::<_, u32>(v)) != Some(*idv) {
                    return e("variables", format!("variable_id({n:?}) does not return {idv}"));
                }
            }
        }
    }
    // disassembler cross-check: same instruction starts
    let dis = p.disassemble_string();
    let dis_starts: Vec<usize> = dis.lines().filter_map(|l| l.split('\t').next().and_then(|x| x.parse().ok())).collect();
    let mine: Vec<usize> = starts.iter().copied().collect();
    if dis_starts != mine {
        return e("disassembler-disagrees", format!("disassemble_string lists {} instructions, the verifier decoded {}", dis_starts.len(), mine.len()));
    }
    obs.add("instructions_checked", instrs.len() as u64);
    obs.add("labels_checked", p.labels.0.len() as u64);
    obs.add("trace_entries_checked", p.trace.len() as u64);
    Ok(())
}

impl Engine for BytecodeEngine {
    type Case = Case;
    fn name(&self) -> &'static str {
        "bytecode"
    }
    fn describe(&self, case: &Self::Case) -> serde_json::Value {
        let mut v = serde_json::to_value(case).unwrap_or(serde_json::Value::Null);
        if let Some(o) = v.as_object_mut() {
            o.insert("module".into(), serde_json::Value::String(crate::pp::module(&case.module, "")));
        }
        v
    }
    fn self_check(&mut self, _obs: &mut Obs) -> Result<(), String> {
        let theirs = verif_instruction_table();
        if theirs.len() != OPS.len() {
            return Err(format!("the crate has {} instructions, the verifier's table {}", theirs.len(), OPS.len()));
        }
        for (op, name, span) in theirs {
            let (n, w) = OPS[op as usize];
            if n != name || span != w + 1 {
                return Err(format!("opcode {op}: crate says {name}/{span}, verifier says {n}/{}", w + 1));
            }
        }
        Ok(())
    }
    fn gen(&mut self, rng: &mut Prng, _tier: Tier) -> Case {
        let (module, source): (Module, &str) = match rng.below(10) {
            0 | 1 => {
                let mut g = ProgGen::new(rng, GenCfg::core());
                (g.gen_program(), "prog")
            }
            2 | 3 => {
                let mut g = ProgGen::new(rng, GenCfg { closures: 30, stdlib: 10, ..GenCfg::core() });
                (g.gen_program(), "prog-closures")
            }
            4 => (crate::gen_closure::gen_closure_scenario(rng).0, "closure-scenario"),
            5 => (crate::gen_closure::gen_gc_scenario(rng).0, "gc-scenario"),
            6 => (crate::e_resolve::gen_tree(rng), "module-tree"),
            _ => {
                let mut e = crate::e_total::TotalEngine {};
                let c = crate::runner::Engine::gen(&mut e, rng, Tier::Quick);
                (c.module, "hostile")
            }
        };
        Case { module, source: source.into() }
    }
    fn run(&mut self, case: &Case, obs: &mut Obs) -> Verdict {
        obs.inc(&format!("source:{}", case.source));
        let p = match compile(case.module.clone(), CompileOptions::new()) {
            Ok(p) => p,
            Err(_) => return Verdict::Skip { reason: "rejected by the compiler".into() },
        };
        obs.inc("programs_validated");
        match verify(&p, obs) {
            Ok(()) => {
                obs.inc("checks_performed");
                if p.bytecode.len() > 40 {
                    obs.nontrivial = true;
                }
                Verdict::Ok
            }
            Err((what, d)) => Verdict::violation(format!("C10:{what}"), d),
        }
    }
    fn shrink(&self, case: &Case) -> Vec<Case> {
        shrink_module(&case.module).into_iter().map(|m| Case { module: m, source: case.source.clone() }).collect()
    }
}
