//! C06: closure scenario templates (parametrised by the PRNG). Every scenario is well-scoped and strict.
use crate::gen::*;
use crate::prng::Prng;
use cao_lang::compiler::{Card, CardBody, Function, Module};

fn func(params: &[&str], cards: Vec<Card>) -> Function {
    Function { arguments: params.iter().map(|s| s.to_string()).collect(), cards }
}

fn log(v: Card) -> Card {
    discard(native("log1", vec![v]))
}

/// wrap a call so that it happens `depth` frames deep: w_d(..) -> ... -> target(args)
/// every wrapper has `extra` parameters and a couple of locals, so the callee frame has a non-zero offset
fn wrappers(rng: &mut Prng, target: &str, n_args: usize, depth: usize, fns: &mut Vec<(String, Function)>) -> String {
    let mut callee = target.to_string();
    for d in 0..depth {
        let name = format!("wrap{d}_{target}").replace('.', "_");
        let extra = rng.below(3);
        let mut params: Vec<String> = (0..n_args).map(|i| format!("a{i}")).collect();
        for e in 0..extra {
            params.push(format!("e{e}"));
        }
        let pr: Vec<&str> = params.iter().map(|s| s.as_str()).collect();
        let mut cards = vec![set("_", nil())];
        for l in 0..rng.below(3) {
            cards.push(set(&format!("l{l}"), int(100 + l as i64)));
        }
        let args: Vec<Card> = (0..n_args).map(|i| read(&format!("a{i}"))).collect();
        cards.push(un("ret", call_padded(fns, &callee, args)));
        fns.push((name.clone(), func(&pr, cards)));
        callee = name;
        // callers of the wrapper must pass the extra parameters too: record by naming convention
        let _ = extra;
    }
    callee
}

fn wrapper_arity(fns: &[(String, Function)], name: &str, default: usize) -> usize {
    fns.iter().find(|(n, _)| n == name).map(|(_, f)| f.arguments.len()).unwrap_or(default)
}

fn call_padded(fns: &[(String, Function)], name: &str, mut args: Vec<Card>) -> Card {
    let ar = wrapper_arity(fns, name, args.len());
    while args.len() < ar {
        args.push(int(7));
    }
    call(name, args)
}

pub fn gen_closure_scenario(rng: &mut Prng) -> (Module, String) {
    let which = rng.below(9);
    let mut fns: Vec<(String, Function)> = Vec::new();
    let mut sub: Option<(String, Module)> = None;
    let mut main: Vec<Card> = vec![set("_", nil())];
    let name: &str;
    match which {
        0 => {
            name = "counter";
            // mk(p0..) { locals; cnt = start; return closure() { cnt = cnt + step; return cnt } }
            let np = rng.below(4);
            let params: Vec<String> = (0..np).map(|i| format!("p{i}")).collect();
            let pr: Vec<&str> = params.iter().map(|s| s.as_str()).collect();
            let mut cards = vec![set("_", nil())];
            for l in 0..rng.below(4) {
                cards.push(set(&format!("l{l}"), int(50 + l as i64)));
            }
            let start = if np > 0 && rng.chance(1, 2) { read("p0") } else { int(rng.range(0, 5)) };
            cards.push(set("cnt", start));
            let step = rng.range(1, 4);
            cards.push(un("ret", closure(&[], vec![set("cnt", bin("add", read("cnt"), int(step))), un("ret", read("cnt"))])));
            fns.push(("mk".into(), func(&pr, cards)));
            let depth = rng.below(4);
            let entry = wrappers(rng, "mk", np, depth, &mut fns);
            let mk_args = |rng: &mut Prng| -> Vec<Card> { (0..np).map(|_| int(rng.range(10, 40))).collect() };
            let a1 = mk_args(rng);
            main.push(set("c1", call_padded(&fns, &entry, a1)));
            let a2 = mk_args(rng);
            main.push(set("c2", call_padded(&fns, &entry, a2)));
            for _ in 0..rng.range(2, 5) {
                let c = if rng.chance(2, 3) { "c1" } else { "c2" };
                main.push(log(dyncall(read(c), vec![])));
            }
            main.push(setg("g_last", dyncall(read("c2"), vec![])));
        }
        1 => {
            name = "shared-siblings";
            // share(p..) { x = v; t = {}; t.inc = closure(){x = x + 1}; t.get = closure(){return x}; x = x * 2; log(get()); return t }
            let np = rng.below(3);
            let params: Vec<String> = (0..np).map(|i| format!("p{i}")).collect();
            let pr: Vec<&str> = params.iter().map(|s| s.as_str()).collect();
            let mut cards = vec![set("_", nil())];
            for l in 0..rng.below(3) {
                cards.push(set(&format!("l{l}"), strc("pad")));
            }
            cards.push(set("x", int(rng.range(1, 9))));
            cards.push(set("t", CardBody::CreateTable.into()));
            cards.push(setprop(closure(&[], vec![set("x", bin("add", read("x"), int(1)))]), read("t"), strc("inc")));
            cards.push(setprop(closure(&[], vec![un("ret", read("x"))]), read("t"), strc("get")));
            // the enclosing scope is still alive: its own writes are visible to both closures
            cards.push(set("x", bin("mul", read("x"), int(2))));
            cards.push(discard(dyncall(read("t.inc"), vec![])));
            cards.push(log(read("x")));
            cards.push(log(dyncall(read("t.get"), vec![])));
            cards.push(un("ret", read("t")));
            fns.push(("share".into(), func(&pr, cards)));
            let depth = rng.below(3);
            let entry = wrappers(rng, "share", np, depth, &mut fns);
            let args: Vec<Card> = (0..np).map(|_| int(rng.range(10, 40))).collect();
            main.push(set("t", call_padded(&fns, &entry, args)));
            for _ in 0..rng.range(1, 4) {
                main.push(discard(dyncall(read("t.inc"), vec![])));
            }
            main.push(log(dyncall(read("t.get"), vec![])));
            main.push(setg("g_x", dyncall(read("t.get"), vec![])));
        }
        2 => {
            name = "per-iteration-capture";
            // cbs = {}; repeat n { v2 = i * 10; append(closure(){ return v2 + i }, cbs) }; foreach cb in cbs { log(cb()) }
            let n = rng.range(1, 5);
            let in_fn = rng.chance(1, 2);
            let mut body = vec![set("_", nil()), set("cbs", CardBody::CreateTable.into())];
            let use_foreach = rng.chance(1, 2);
            let loop_body = comp(vec![
                set("v2", bin("mul", read("i"), int(10))),
                bin("append", closure(&[], vec![un("ret", bin("add", read("v2"), read("i")))]), read("cbs")),
            ]);
            if use_foreach {
                body.push(set("src", CardBody::CreateTable.into()));
                for j in 0..n {
                    body.push(bin("append", int(j * 3), read("src")));
                }
                body.push(foreach(Some("i"), None, Some("unused"), read("src"), loop_body));
            } else {
                body.push(repeat(int(n), Some("i"), loop_body));
            }
            body.push(foreach(None, None, Some("cb"), read("cbs"), comp(vec![set("_", nil()), log(dyncall(read("cb"), vec![]))])));
            if in_fn {
                let np = rng.below(3);
                let params: Vec<String> = (0..np).map(|i| format!("p{i}")).collect();
                let pr: Vec<&str> = params.iter().map(|s| s.as_str()).collect();
                body.push(un("ret", read("cbs")));
                fns.push(("collect".into(), func(&pr, body)));
                let args: Vec<Card> = (0..np).map(|_| int(3)).collect();
                main.push(set("cbs", call("collect", args)));
                // call them again, after the defining function has returned, in reverse order
                main.push(set("k", un("len", read("cbs"))));
                main.push(set("w0", int(0)));
                main.push(bin(
                    "while",
                    bin("less", read("w0"), read("k")),
                    comp(vec![
                        log(dyncall(bin("getprop", read("cbs"), bin("sub", bin("sub", read("k"), int(1)), read("w0"))), vec![])),
                        set("w0", bin("add", read("w0"), int(1))),
                    ]),
                ));
            } else {
                main.extend(body.into_iter().skip(1));
            }
        }
        3 => {
            name = "nested-capture-of-capture";
            // outer(p0) { a = p0 + 1; return closure(m) { b = m * 2; return closure() { a = a + b; return a } } }
            let cards = vec![
                set("_", nil()),
                set("pad", strc("x")),
                set("a", bin("add", read("p0"), int(1))),
                un(
                    "ret",
                    closure(
                        &["m"],
                        vec![
                            set("b", bin("mul", read("m"), int(2))),
                            un("ret", closure(&[], vec![set("a", bin("add", read("a"), read("b"))), un("ret", read("a"))])),
                        ],
                    ),
                ),
            ];
            fns.push(("outer".into(), func(&["p0"], cards)));
            let depth = rng.below(3);
            let entry = wrappers(rng, "outer", 1, depth, &mut fns);
            main.push(set("mid", call_padded(&fns, &entry, vec![int(rng.range(1, 9))])));
            main.push(set("in1", dyncall(read("mid"), vec![int(rng.range(1, 5))])));
            main.push(set("in2", dyncall(read("mid"), vec![int(rng.range(5, 9))])));
            // in1 and in2 share `a` (captured through mid) but have their own `b`
            for _ in 0..rng.range(2, 5) {
                let c = if rng.chance(1, 2) { "in1" } else { "in2" };
                main.push(log(dyncall(read(c), vec![])));
            }
        }
        4 => {
            name = "parameter-capture";
            let np = rng.range(1, 4) as usize;
            let which_p = rng.below(np);
            let params: Vec<String> = (0..np).map(|i| format!("p{i}")).collect();
            let pr: Vec<&str> = params.iter().map(|s| s.as_str()).collect();
            let mut cards = vec![set("_", nil())];
            for l in 0..rng.below(3) {
                cards.push(set(&format!("l{l}"), int(l as i64)));
            }
            cards.push(un("ret", closure(&["m"], vec![un("ret", bin("add", read(&format!("p{which_p}")), read("m")))])));
            fns.push(("adder".into(), func(&pr, cards)));
            let depth = rng.below(4);
            let entry = wrappers(rng, "adder", np, depth, &mut fns);
            for c in 0..3 {
                let args: Vec<Card> = (0..np).map(|i| int(100 * (c + 1) + i as i64)).collect();
                main.push(set(&format!("c{c}"), call_padded(&fns, &entry, args)));
            }
            let mut order = vec![0, 1, 2, 1, 0];
            rng.shuffle(&mut order);
            for c in order {
                if rng.chance(1, 3) {
                    main.push(log(native("apply1", vec![read(&format!("c{c}")), int(c as i64)])));
                } else {
                    main.push(log(dyncall(read(&format!("c{c}")), vec![int(c as i64)])));
                }
            }
        }
        5 => {
            name = "same-card-position-in-two-modules";
            // root.mk and lib.mk have the same function index and the closure card at the same position
            let tag_a = rng.range(1, 50);
            let tag_b = rng.range(51, 99);
            let pre = rng.below(3);
            let mk = |tag: i64| -> Function {
                let mut cards = vec![set("_", nil())];
                for l in 0..pre {
                    cards.push(set(&format!("l{l}"), int(l as i64)));
                }
                cards.push(set("v", int(tag)));
                cards.push(un("ret", closure(&[], vec![un("ret", bin("mul", read("v"), int(tag)))])));
                func(&[], cards)
            };
            if rng.chance(1, 2) {
                // the same, between two (or three) functions of one module: the card path of the closure is identical,
                // only the function differs
                let n = rng.range(2, 3);
                let mut root = Module::default();
                let tags: Vec<i64> = (0..n).map(|i| tag_a + 7 * i).collect();
                for (i, t) in tags.iter().enumerate() {
                    fns.push((format!("mk{i}"), mk(*t)));
                    main.push(set(&format!("c{i}"), call(&format!("mk{i}"), vec![])));
                }
                for i in (0..n as usize).chain(0..1) {
                    main.push(log(dyncall(read(&format!("c{i}")), vec![])));
                }
                let mainf = func(&[], main);
                if rng.chance(1, 2) {
                    root.functions.push(("main".into(), mainf));
                    root.functions.extend(fns);
                } else {
                    root.functions.extend(fns);
                    root.functions.push(("main".into(), mainf));
                }
                return (root, "same-card-position-in-two-functions".to_string());
            }
            let main_first = rng.chance(1, 2);
            let mut libm = Module::default();
            if main_first {
                // keep the function index of `mk` equal in both modules
                libm.functions.push(("pad".into(), func(&[], vec![un("ret", int(0))])));
            }
            libm.functions.push(("mk".into(), mk(tag_b)));
            sub = Some(("lib".into(), libm));
            fns.push(("mk".into(), mk(tag_a)));
            main.push(set("ca", call("mk", vec![])));
            main.push(set("cb", call("lib.mk", vec![])));
            main.push(log(dyncall(read("ca"), vec![])));
            main.push(log(dyncall(read("cb"), vec![])));
            main.push(log(dyncall(read("ca"), vec![])));
            let mut root = Module::default();
            let mainf = func(&[], main);
            if main_first {
                root.functions.push(("main".into(), mainf));
                root.functions.extend(fns);
            } else {
                root.functions.extend(fns);
                root.functions.push(("main".into(), mainf));
            }
            root.submodules.push(sub.unwrap());
            return (root, name.to_string());
        }
        6 => {
            name = "innermost-binding-wins";
            // x = 1; repeat n (loop variable named x) { append(closure(){ return x }, cbs) } ; every closure sees the loop variable
            let n = rng.range(1, 4);
            let np = rng.below(3);
            let params: Vec<String> = (0..np).map(|i| format!("p{i}")).collect();
            let pr: Vec<&str> = params.iter().map(|s| s.as_str()).collect();
            let cards = vec![
                set("_", nil()),
                set("x", int(1000)),
                set("cbs", CardBody::CreateTable.into()),
                repeat(int(n), Some("x"), comp(vec![bin("append", closure(&[], vec![un("ret", read("x"))]), read("cbs"))])),
                bin("append", closure(&[], vec![un("ret", read("x"))]), read("cbs")),
                un("ret", read("cbs")),
            ];
            fns.push(("mkall".into(), func(&pr, cards)));
            let args: Vec<Card> = (0..np).map(|_| int(5)).collect();
            main.push(set("cbs", call("mkall", args)));
            main.push(foreach(None, None, Some("cb"), read("cbs"), comp(vec![set("_", nil()), log(dyncall(read("cb"), vec![]))])));
        }
        7 => {
            name = "write-through-while-alive";
            let np = rng.below(4);
            let params: Vec<String> = (0..np).map(|i| format!("p{i}")).collect();
            let pr: Vec<&str> = params.iter().map(|s| s.as_str()).collect();
            let mut cards = vec![set("_", nil())];
            for l in 0..rng.below(3) {
                cards.push(set(&format!("l{l}"), real(0.5)));
            }
            cards.push(set("s", strc("start")));
            cards.push(set("n", int(rng.range(1, 9))));
            cards.push(set("rd", closure(&[], vec![un("ret", native("pair", vec![read("n"), read("s")]))])));
            cards.push(set("wr", closure(&["m"], vec![set("n", read("m")), set("s", strc("written"))])));
            cards.push(log(dyncall(read("rd"), vec![])));
            cards.push(set("n", bin("add", read("n"), int(100))));
            cards.push(log(dyncall(read("rd"), vec![])));
            cards.push(discard(dyncall(read("wr"), vec![int(rng.range(20, 30))])));
            cards.push(log(read("n")));
            cards.push(log(read("s")));
            cards.push(log(dyncall(read("rd"), vec![])));
            cards.push(un("ret", read("rd")));
            fns.push(("alive".into(), func(&pr, cards)));
            let depth = rng.below(3);
            let entry = wrappers(rng, "alive", np, depth, &mut fns);
            let args: Vec<Card> = (0..np).map(|_| int(rng.range(10, 40))).collect();
            main.push(set("rd", call_padded(&fns, &entry, args)));
            main.push(log(dyncall(read("rd"), vec![])));
        }
        _ => {
            name = "closure-as-library-callback";
            // a closure capturing a counter is passed to a host function that re-enters the VM, several times
            let np = rng.below(3);
            let params: Vec<String> = (0..np).map(|i| format!("p{i}")).collect();
            let pr: Vec<&str> = params.iter().map(|s| s.as_str()).collect();
            let mut cards = vec![set("_", nil())];
            for l in 0..rng.below(3) {
                cards.push(set(&format!("l{l}"), int(1)));
            }
            cards.push(set("total", int(0)));
            cards.push(set("acc", closure(&["m"], vec![set("total", bin("add", read("total"), read("m"))), un("ret", read("total"))])));
            for k in 0..rng.range(1, 4) {
                cards.push(log(native("apply1", vec![read("acc"), int(k + 1)])));
            }
            cards.push(log(read("total")));
            cards.push(un("ret", read("acc")));
            fns.push(("summer".into(), func(&pr, cards)));
            let depth = rng.below(3);
            let entry = wrappers(rng, "summer", np, depth, &mut fns);
            let args: Vec<Card> = (0..np).map(|_| int(rng.range(10, 40))).collect();
            main.push(set("acc", call_padded(&fns, &entry, args)));
            main.push(log(native("apply1", vec![read("acc"), int(10)])));
            main.push(log(dyncall(read("acc"), vec![int(100)])));
        }
    }
    let mut root = Module::default();
    let pos = rng.below(fns.len() + 1);
    root.functions = fns;
    root.functions.insert(pos, ("main".to_string(), func(&[], main)));
    if let Some(s) = sub {
        root.submodules.push(s);
    }
    (root, name.to_string())
}

/// C02: allocation-heavy scenario templates (table growth, rows, nested tables, temporaries, library callbacks)
pub fn gen_gc_scenario(rng: &mut Prng) -> (Module, String) {
    let mut fns: Vec<(String, Function)> = Vec::new();
    let mut main: Vec<Card> = vec![set("_", nil())];
    let name: &str;
    match rng.below(10) {
        8 | 9 => {
            name = "gc:temporary-closure-calls-down";
            // a closure that only its own call frame refers to calls further down; collections run while its frame is
            // *below* the top of the call stack; afterwards it still reads what it captured
            let depth = rng.range(1, 4);
            fns.push((
                "down".into(),
                func(
                    &["d"],
                    vec![
                        set("_", nil()),
                        set("tmp", native("concat", vec![strc("d"), read("d")])),
                        ifelse(bin("less", int(0), read("d")), comp(vec![set("tmp", call("down", vec![bin("sub", read("d"), int(1))]))]), comp(vec![set("tmp", native("pair", vec![read("tmp"), read("d")]))])),
                        un("ret", read("tmp")),
                    ],
                ),
            ));
            let callee: Card = match rng.below(5) {
                0 => call("down", vec![int(depth)]),
                1 => native("apply1", vec![CardBody::Function("down".into()).into(), int(depth)]),
                2 => dyncall(CardBody::Function("down".into()).into(), vec![int(depth)]),
                // a second temporary closure below the first
                3 => dyncall(closure(&["q"], vec![set("w", call("down", vec![read("q")])), un("ret", native("pair", vec![read("w"), read("cap2")]))]), vec![int(depth)]),
                _ => call("std.map", vec![closure(&["k", "v"], vec![un("ret", call("down", vec![read("v")]))]), CardBody::Array(vec![int(0), int(depth)]).into()]),
            };
            let n = rng.range(1, 4);
            main.push(set("base", native("concat", vec![strc("b"), int(1)])));
            main.push(set("cap2", native("pair", vec![strc("c"), int(2)])));
            main.push(repeat(
                int(n),
                Some("i"),
                comp(vec![
                    set("_", nil()),
                    log(dyncall(
                        closure(
                            &["m"],
                            vec![
                                set("before", native("concat", vec![read("base"), read("m")])),
                                set("r", callee.clone()),
                                // read the captured variables after the callee returned
                                un("ret", native("pair", vec![native("concat", vec![read("base"), read("before")]), native("pair", vec![read("r"), read("cap2")])])),
                            ],
                        ),
                        vec![read("i")],
                    )),
                ]),
            ));
        }
        0 => {
            name = "gc:table-growth";
            let n = rng.range(6, 40);
            main.push(set("t", CardBody::CreateTable.into()));
            let val = match rng.below(4) {
                0 => native("concat", vec![read("i"), strc("x")]),
                1 => native("pair", vec![read("i"), strc("p")]),
                2 => closure(&[], vec![un("ret", read("i"))]),
                _ => CardBody::CreateTable.into(),
            };
            let stmt = if rng.chance(1, 2) { bin("append", val, read("t")) } else { setprop(val, read("t"), native("concat", vec![strc("k"), read("i")])) };
            main.push(repeat(int(n), Some("i"), comp(vec![stmt])));
            main.push(log(un("len", read("t"))));
            main.push(log(read("t")));
        }
        1 => {
            name = "gc:rows";
            let n = rng.range(3, 12);
            main.push(set("t", CardBody::CreateTable.into()));
            main.push(repeat(int(n), Some("i"), comp(vec![setprop(native("concat", vec![read("i"), strc("v")]), read("t"), native("concat", vec![strc("key"), read("i")]))])));
            main.push(repeat(int(n), Some("i"), comp(vec![set("_", nil()), set("r", bin("get", read("t"), read("i"))), discard(native("log2", vec![read("r.key"), read("r.value")]))])));
            // rows of a temporary table
            main.push(log(bin("get", native("pair", vec![strc("a"), strc("b")]), int(1))));
        }
        2 => {
            name = "gc:nested-tables";
            let n = rng.range(2, 10);
            main.push(set("t", CardBody::CreateTable.into()));
            main.push(repeat(
                int(n),
                Some("i"),
                comp(vec![
                    set("_", nil()),
                    set("inner", CardBody::CreateTable.into()),
                    setprop(native("concat", vec![strc("s"), read("i")]), read("inner"), strc("name")),
                    bin("append", read("i"), read("inner")),
                    setprop(read("inner"), read("t"), read("i")),
                ]),
            ));
            main.push(log(read("t")));
            main.push(setg("g_t", read("t")));
        }
        3 => {
            name = "gc:temporary-closure-called";
            // the closure value is consumed by the call: only the call frame refers to it while it runs
            let n = rng.range(1, 6);
            main.push(set("base", native("concat", vec![strc("b"), int(1)])));
            main.push(repeat(
                int(n),
                Some("i"),
                comp(vec![
                    set("_", nil()),
                    log(dyncall(
                        closure(&["m"], vec![set("s", native("concat", vec![read("base"), read("m")])), set("u", native("pair", vec![read("s"), read("i")])), un("ret", read("u"))]),
                        vec![read("i")],
                    )),
                ]),
            ));
        }
        4 => {
            name = "gc:library-allocating-callbacks";
            let n = rng.range(2, 14);
            main.push(set("t", CardBody::CreateTable.into()));
            main.push(repeat(int(n), Some("i"), comp(vec![bin("append", bin("sub", int(100), bin("mul", read("i"), int(7))), read("t"))])));
            let f = *rng.pick(&["sorted_by_key", "min_by_key", "max_by_key", "map", "filter", "any"]);
            let cb = match f {
                "map" | "filter" | "any" => closure(&["k", "v"], vec![set("s", native("concat", vec![read("v"), read("k")])), un("ret", un("len", read("s")))]),
                _ => closure(&["k", "v"], vec![set("s", native("pair", vec![read("v"), read("k")])), un("ret", bin("sub", int(0), read("v")))]),
            };
            main.push(log(call(&format!("std.{f}"), vec![cb, read("t")])));
            main.push(log(call("std.sorted", vec![read("t")])));
            main.push(log(call("std.to_array", vec![call("std.sorted", vec![read("t")])])));
            main.push(log(call("std.max", vec![read("t")])));
        }
        5 => {
            name = "gc:host-reentry-allocating";
            let cards = vec![set("_", nil()), set("s", native("concat", vec![read("m"), strc("!")])), un("ret", native("pair", vec![read("s"), read("m")]))];
            fns.push(("mk".into(), func(&["m"], cards)));
            let n = rng.range(1, 6);
            main.push(set("acc", CardBody::CreateTable.into()));
            main.push(repeat(int(n), Some("i"), comp(vec![bin("append", native("apply1", vec![CardBody::Function("mk".into()).into(), read("i")]), read("acc"))])));
            main.push(log(read("acc")));
        }
        6 => {
            name = "gc:temporaries-on-stack";
            // several freshly allocated operands are live on the value stack while the next one is allocated
            let n = rng.range(1, 5);
            main.push(repeat(
                int(n),
                Some("i"),
                comp(vec![
                    set("_", nil()),
                    discard(native("log3", vec![native("concat", vec![read("i"), strc("a")]), native("pair", vec![native("concat", vec![strc("b"), read("i")]), CardBody::CreateTable.into()]), native("concat", vec![strc("c"), read("i")])])),
                    set("x", bin("eq", native("concat", vec![read("i"), strc("q")]), native("concat", vec![read("i"), strc("q")]))),
                    log(read("x")),
                ]),
            ));
        }
        _ => {
            name = "gc:closures-in-tables";
            let n = rng.range(2, 8);
            main.push(set("t", CardBody::CreateTable.into()));
            main.push(repeat(
                int(n),
                Some("i"),
                comp(vec![set("_", nil()), set("s", native("concat", vec![strc("cap"), read("i")])), bin("append", closure(&[], vec![un("ret", native("concat", vec![read("s"), read("i")]))]), read("t"))]),
            ));
            main.push(foreach(None, None, Some("f"), read("t"), comp(vec![set("_", nil()), log(dyncall(read("f"), vec![]))])));
            main.push(foreach(None, None, Some("f"), read("t"), comp(vec![set("_", nil()), log(native("apply0", vec![read("f")]))])));
        }
    }
    let mut root = Module::default();
    root.functions = fns;
    root.functions.push(("main".to_string(), func(&[], main)));
    (root, name.to_string())
}

/// host-function calls whose arguments are temporaries (only the argument slots refer to them) while the host function
/// allocates or re-enters the script and uses its parameters afterwards (C18 under collections)
pub fn gen_host_gc_scenario(rng: &mut Prng) -> (Module, String) {
    let mut fns: Vec<(String, Function)> = Vec::new();
    let mut main: Vec<Card> = vec![set("_", nil())];
    let tmp = |rng: &mut Prng, tag: &str| -> Card {
        // (no Array cards here: an Array in argument position declares its hidden local among temporaries, which is
        // outside the well-scoped class)
        match rng.below(4) {
            0 => native("concat", vec![strc(tag), read("i")]),
            1 => native("pair", vec![strc(tag), read("i")]),
            2 => native("wrap1", vec![native("concat", vec![read("i"), strc(tag)])]),
            _ => closure(&[], vec![un("ret", read("i"))]),
        }
    };
    fns.push(("mk".into(), func(&["m"], vec![set("_", nil()), set("s", native("concat", vec![strc("made"), int(1)])), un("ret", native("pair", vec![read("s"), read("m")]))])));
    let n = rng.range(1, 6);
    let name = match rng.below(6) {
        5 => {
            // the host obtains a closure from a script function and calls it at once; the closure allocates and then
            // reads what it captured
            fns.push((
                "mkc".into(),
                func(
                    &[],
                    vec![
                        set("_", nil()),
                        set("s", native("concat", vec![strc("cap"), int(1)])),
                        un("ret", closure(&["m"], vec![set("t", native("pair", vec![read("s"), read("m")])), set("u", native("concat", vec![read("s"), read("m")])), un("ret", native("pair", vec![read("t"), read("u")]))])),
                    ],
                ),
            ));
            let c = native("chain2", vec![CardBody::Function("mkc".into()).into(), tmp(rng, "x")]);
            main.push(repeat(int(n), Some("i"), comp(vec![set("_", nil()), log(c)])));
            "host-gc:closure-from-factory"
        }
        0 => {
            let c = native("wrap1", vec![tmp(rng, "a")]);
            main.push(repeat(int(n), Some("i"), comp(vec![set("_", nil()), log(c)])));
            "host-gc:wrap1"
        }
        1 => {
            let c = native("wrap3", vec![tmp(rng, "a"), tmp(rng, "b"), tmp(rng, "c")]);
            main.push(repeat(int(n), Some("i"), comp(vec![set("_", nil()), log(c)])));
            "host-gc:wrap3"
        }
        2 => {
            let c = native("wrap4", vec![tmp(rng, "a"), tmp(rng, "b"), tmp(rng, "c"), tmp(rng, "d")]);
            main.push(repeat(int(n), Some("i"), comp(vec![set("_", nil()), log(c)])));
            "host-gc:wrap4"
        }
        3 => {
            let c = native("keep1", vec![CardBody::Function("mk".into()).into(), tmp(rng, "k")]);
            main.push(repeat(int(n), Some("i"), comp(vec![set("_", nil()), log(c)])));
            "host-gc:keep1"
        }
        _ => {
            // the native is a value and is called dynamically
            let which = *rng.pick(&["wrap1", "id1"]);
            let c = dyncall(CardBody::NativeFunction(which.into()).into(), vec![tmp(rng, "v")]);
            main.push(repeat(int(n), Some("i"), comp(vec![set("_", nil()), log(native("wrap1", vec![c]))])));
            "host-gc:native-value"
        }
    };
    let mut root = Module::default();
    root.functions = fns;
    root.functions.push(("main".to_string(), func(&[], main)));
    (root, name.to_string())
}
