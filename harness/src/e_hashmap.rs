//! C12: CaoHashMap against std BTreeMap in lock-step, drop registry, allocation-failure sweep.
use crate::prng::Prng;
use crate::runner::{Engine, Obs, Tier, Verdict};
use cao_lang::collections::hash_map::CaoHashMap;
use cao_lang::verif_hooks::{AllocEvent, AllocProxy, Allocator, CaoLangAllocator, SysAllocator};
use serde::{Deserialize, Serialize};
use std::cell::RefCell;
use std::collections::BTreeMap;
use std::hash::{Hash, Hasher};

// ---------------------------------------------------------------- drop registry

#[derive(Default)]
pub struct Registry {
    pub drops: Vec<u8>,
    pub errors: Vec<(String, String)>,
}

thread_local! {
    pub static REG: RefCell<Registry> = RefCell::new(Registry::default());
}

pub fn reg_reset() {
    REG.with(|r| {
        let mut r = r.borrow_mut();
        r.drops.clear();
        r.errors.clear();
    });
}

fn reg_new() -> u32 {
    REG.with(|r| {
        let mut r = r.borrow_mut();
        r.drops.push(0);
        (r.drops.len() - 1) as u32
    })
}

fn reg_drop(id: u32, what: &str) {
    REG.with(|r| {
        let mut r = r.borrow_mut();
        let i = id as usize;
        if i >= r.drops.len() {
            r.errors.push((
                "drop:garbage".into(),
                format!("{what} with id {id} dropped but never created (garbage memory dropped)"),
            ));
            return;
        }
        r.drops[i] = r.drops[i].saturating_add(1);
        if r.drops[i] == 2 {
            r.errors
                .push(("drop:double".into(), format!("{what} #{id} dropped twice")));
        }
    });
}

fn reg_use(id: u32, what: &str, how: &str) {
    REG.with(|r| {
        let mut r = r.borrow_mut();
        let i = id as usize;
        if i >= r.drops.len() {
            r.errors.push((
                format!("use:garbage:{how}"),
                format!("{what} with id {id} used ({how}) but never created"),
            ));
        } else if r.drops[i] > 0 {
            r.errors.push((
                format!("use-after-drop:{how}"),
                format!("{what} #{id} used ({how}) after it was dropped"),
            ));
        }
    });
}

pub fn reg_take_errors() -> Vec<(String, String)> {
    REG.with(|r| std::mem::take(&mut r.borrow_mut().errors))
}

/// after everything is dropped: every created id must have been dropped exactly once
pub fn reg_final_check() -> Vec<(String, String)> {
    REG.with(|r| {
        let r = r.borrow();
        let mut out = Vec::new();
        let leaked: Vec<usize> = r
            .drops
            .iter()
            .enumerate()
            .filter(|(_, d)| **d == 0)
            .map(|(i, _)| i)
            .collect();
        if !leaked.is_empty() {
            out.push((
                "drop:never".to_string(),
                format!(
                    "{} element(s) never dropped, first ids {:?}",
                    leaked.len(),
                    &leaked[..leaked.len().min(5)]
                ),
            ));
        }
        out
    })
}

#[derive(Debug)]
pub struct DK {
    pub id: u32,
    pub k: u64,
}
impl DK {
    pub fn new(k: u64) -> Self {
        DK { id: reg_new(), k }
    }
}
impl Hash for DK {
    fn hash<H: Hasher>(&self, state: &mut H) {
        self.k.hash(state)
    }
}
impl PartialEq for DK {
    fn eq(&self, o: &Self) -> bool {
        reg_use(self.id, "key", "eq");
        reg_use(o.id, "key", "eq");
        self.k == o.k
    }
}
impl Eq for DK {}
impl Clone for DK {
    fn clone(&self) -> Self {
        reg_use(self.id, "key", "clone");
        DK::new(self.k)
    }
}
impl Drop for DK {
    fn drop(&mut self) {
        reg_drop(self.id, "key")
    }
}

#[derive(Debug)]
pub struct DV {
    pub id: u32,
    pub v: i64,
}
impl DV {
    pub fn new(v: i64) -> Self {
        DV { id: reg_new(), v }
    }
    pub fn read(&self) -> i64 {
        reg_use(self.id, "value", "read");
        self.v
    }
}
impl Clone for DV {
    fn clone(&self) -> Self {
        reg_use(self.id, "value", "clone");
        DV::new(self.v)
    }
}
impl Drop for DV {
    fn drop(&mut self) {
        reg_drop(self.id, "value")
    }
}

// ---------------------------------------------------------------- hash replica (cross-checked at run time)

pub fn cao_hash_bytes(bytes: &[u8]) -> u64 {
    const MASK: u64 = u32::MAX as u64;
    let mut hash: u64 = 2166136261;
    for b in bytes {
        hash ^= *b as u64;
        hash &= MASK;
        hash = hash.wrapping_mul(16777619);
    }
    hash & MASK
}
pub fn cao_hash_u64(k: u64) -> u64 {
    let h = cao_hash_bytes(&k.to_le_bytes());
    // the crate stores keys whose raw hash is the reserved 0 under this fixed hash
    if h == 0 {
        0x9E3779B9
    } else {
        h
    }
}
pub fn raw_hash_is_zero(k: u64) -> bool {
    cao_hash_bytes(&k.to_le_bytes()) == 0
}
pub fn home_slot(h: u64, cap: usize) -> usize {
    (h.wrapping_mul(2654435769) as usize) % cap.max(1)
}

/// integers whose 32-bit FNV-1a over their 8 LE bytes is 0 (the reserved hash)
pub const ZERO_HASH_KEYS: [u64; 2] = [3291555020, 3416215008];

// ---------------------------------------------------------------- case

#[derive(Debug, Clone, Serialize, Deserialize, PartialEq)]
pub enum Op {
    Insert(u64, i64),
    Remove(u64),
    Get(u64),
    GetMut(u64, i64),
    Contains(u64),
    Entry(u64, i64),
    Reserve(usize),
    Clear,
    CloneSwap,
    CloneDrop,
    IterMut(i64),
    InsertHint(u64, i64),
    RemoveHint(u64),
    GetHint(u64),
    GetHintMut(u64, i64),
    ContainsHint(u64),
}

impl Op {
    fn name(&self) -> &'static str {
        match self {
            Op::Insert(..) => "insert",
            Op::Remove(..) => "remove",
            Op::Get(..) => "get",
            Op::GetMut(..) => "get_mut",
            Op::Contains(..) => "contains",
            Op::Entry(..) => "entry",
            Op::Reserve(..) => "reserve",
            Op::Clear => "clear",
            Op::CloneSwap => "clone",
            Op::CloneDrop => "clone",
            Op::IterMut(..) => "iter_mut",
            Op::InsertHint(..) => "insert_with_hint",
            Op::RemoveHint(..) => "remove_with_hint",
            Op::GetHint(..) => "get_with_hint",
            Op::GetHintMut(..) => "get_with_hint_mut",
            Op::ContainsHint(..) => "contains_with_hint",
        }
    }
}

#[derive(Debug, Clone, Serialize, Deserialize)]
pub struct Case {
    pub proxy_alloc: bool,
    pub init_cap: usize,
    pub universe: Vec<u64>,
    pub ops: Vec<Op>,
    /// fail each allocation index of the history in turn (proxy allocator only)
    pub fail_sweep: bool,
    /// fail only this allocation index (set by the minimiser / replay)
    pub fail_at: Option<u64>,
    pub kind: String,
}

pub struct HashMapEngine {
    pub avoid_zero_hash: bool,
}

impl Default for HashMapEngine {
    fn default() -> Self {
        HashMapEngine {
            avoid_zero_hash: false,
        }
    }
}

fn keys_for_slot(cap: usize, slot: usize, n: usize, start: u64) -> Vec<u64> {
    let mut out = Vec::new();
    let mut k = start;
    let mut guard = 0;
    while out.len() < n && guard < (if cfg!(miri) { 4_000 } else { 200_000 }) {
        let h = cao_hash_u64(k);
        if h != 0 && home_slot(h, cap) == slot {
            out.push(k);
        }
        k = k.wrapping_add(1);
        guard += 1;
    }
    out
}

impl HashMapEngine {
    fn gen_universe(&self, rng: &mut Prng, kind: usize, init_cap: usize) -> Vec<u64> {
        let mut u: Vec<u64> = Vec::new();
        match kind {
            0 => {
                let n = rng.range(3, 40) as u64;
                let base = if rng.chance(1, 2) {
                    0
                } else {
                    rng.next_u64() % 1_000_000
                };
                u.extend((0..n).map(|i| base + i));
            }
            1 => {
                // keys sharing one home slot at one of the capacities the map will pass through
                let caps = [init_cap.max(1), 8, 12, 18, 27, 40, 3, 4, 6, 9, 13];
                let cap = *rng.pick(&caps);
                let slot = if rng.chance(1, 2) {
                    cap - 1
                } else {
                    rng.below(cap)
                };
                let n = rng.range(3, 9) as usize;
                u.extend(keys_for_slot(cap, slot, n, rng.next_u64() % 100_000));
                // neighbours: keys homed in the following slots (chains that wrap around)
                for d in 1..=rng.below(4) {
                    u.extend(keys_for_slot(
                        cap,
                        (slot + d) % cap,
                        rng.range(1, 3) as usize,
                        rng.next_u64() % 100_000,
                    ));
                }
                for _ in 0..rng.below(6) {
                    u.push(rng.next_u64() % 1000);
                }
            }
            _ => {
                let n = rng.range(2, 24) as u64;
                u.extend((0..n).map(|_| rng.next_u64() % 64));
                if !self.avoid_zero_hash {
                    u.push(*rng.pick(&ZERO_HASH_KEYS));
                    if rng.chance(1, 2) {
                        u.push(ZERO_HASH_KEYS[0]);
                        u.push(ZERO_HASH_KEYS[1]);
                    }
                }
            }
        }
        u.sort();
        u.dedup();
        if u.is_empty() {
            u.push(1);
        }
        u
    }
}

impl Engine for HashMapEngine {
    type Case = Case;
    fn name(&self) -> &'static str {
        "hashmap"
    }

    fn self_check(&mut self, _obs: &mut Obs) -> Result<(), String> {
        // the replica of the hash function must agree with what insert() reports
        let mut m: CaoHashMap<u64, u8> = CaoHashMap::with_capacity_in(8, SysAllocator).unwrap();
        for k in [1u64, 2, 77, 123456789, u64::MAX, ZERO_HASH_KEYS[0], ZERO_HASH_KEYS[1]] {
            let h = m.insert(k, 0).map_err(|e| format!("{e:?}"))?;
            if h != cao_hash_u64(k) {
                return Err(format!(
                    "hash replica disagrees with CaoHashMap::insert for key {k}: {h} vs {}",
                    cao_hash_u64(k)
                ));
            }
        }
        Ok(())
    }

    fn gen(&mut self, rng: &mut Prng, tier: Tier) -> Case {
        let proxy_alloc = rng.chance(1, 2);
        let init_cap = *rng.pick(&[0usize, 1, 1, 2, 3, 4, 7, 8, 8, 8, 16, 33]);
        let kind = rng.weighted(&[4, 4, 2]);
        let universe = self.gen_universe(rng, kind, init_cap);
        // (the Miri interpreter is about four orders of magnitude slower: short histories there)
        let max_ops = if cfg!(miri) { 36 } else if tier == Tier::Quick { 120 } else { 200 };
        let n_ops = rng.range(5, max_ops) as usize;
        // phase weights: grow-heavy, churn, shrink-heavy
        let profile = rng.below(3);
        let mut ops = Vec::with_capacity(n_ops);
        for _ in 0..n_ops {
            let k = *rng.pick(&universe);
            let v = rng.range(-1000, 1000);
            let w: [u32; 16] = match profile {
                0 => [30, 6, 6, 3, 4, 14, 2, 1, 1, 1, 1, 4, 2, 2, 1, 2],
                1 => [16, 16, 6, 3, 4, 10, 2, 1, 1, 1, 1, 3, 4, 2, 1, 2],
                _ => [10, 24, 5, 3, 4, 6, 1, 1, 1, 1, 1, 2, 6, 2, 1, 2],
            };
            let op = match rng.weighted(&w) {
                0 => Op::Insert(k, v),
                1 => Op::Remove(k),
                2 => Op::Get(k),
                3 => Op::GetMut(k, v),
                4 => Op::Contains(k),
                5 => Op::Entry(k, v),
                6 => Op::Reserve(rng.below(9)),
                7 => Op::Clear,
                8 => Op::CloneSwap,
                9 => Op::CloneDrop,
                10 => Op::IterMut(v),
                11 => Op::InsertHint(k, v),
                12 => Op::RemoveHint(k),
                13 => Op::GetHint(k),
                14 => Op::GetHintMut(k, v),
                _ => Op::ContainsHint(k),
            };
            ops.push(op);
        }
        let fail_sweep = proxy_alloc && rng.chance(1, 4);
        Case {
            proxy_alloc,
            init_cap,
            universe,
            ops,
            fail_sweep,
            fail_at: None,
            kind: ["dense", "collide", "sparse+zero"][kind].to_string(),
        }
    }

    fn run(&mut self, case: &Case, obs: &mut Obs) -> Verdict {
        // element types without drop glue take other paths through clear / Drop
        if let Err((what, d)) = crate::plain::hashmap_plain(case.ops.len() as u64 * 7919 + case.init_cap as u64 + case.universe.iter().sum::<u64>(), obs) {
            return Verdict::violation(format!("C12:{what}"), d);
        }
        let pseed = case.ops.len() as u64 * 104729 + case.init_cap as u64 + case.universe.iter().sum::<u64>();
        for r in [crate::plain::hashmap_droppy_keys(pseed, obs), crate::plain::hashmap_overaligned(pseed, obs)] {
            if let Err((what, d)) = r {
                return Verdict::violation(format!("C12:{what}"), d);
            }
        }
        if case.proxy_alloc {
            let mk = || {
                let a = CaoLangAllocator::new(std::ptr::null_mut(), 1 << 30);
                a.next_gc.store(usize::MAX, std::sync::atomic::Ordering::Relaxed);
                AllocProxy::from(a)
            };
            if let Some(i) = case.fail_at {
                let a = mk();
                return run_history(case, a.clone(), Some(&a), Some(i), obs).0;
            }
            let a = mk();
            let (v, n_alloc) = run_history(case, a.clone(), Some(&a), None, obs);
            if v.is_violation() || !case.fail_sweep {
                return v;
            }
            obs.inc("fail_sweeps");
            for i in 0..(if cfg!(miri) { n_alloc.min(6) } else { n_alloc }) {
                let a = mk();
                let mut o2 = Obs::default();
                let (v, _) = run_history(case, a.clone(), Some(&a), Some(i), &mut o2);
                obs.add("alloc_points_failed", 1);
                obs.add("failed_alloc_reported", *o2.counters.get("failed_alloc_reported").unwrap_or(&0));
                if let Verdict::Violation { sig, detail } = v {
                    return Verdict::violation(
                        format!("{sig}+allocfail"),
                        format!("with allocation #{i} failing: {detail}"),
                    );
                }
            }
            Verdict::Ok
        } else {
            run_history(case, SysAllocator, None, None, obs).0
        }
    }

    fn shrink(&self, case: &Case) -> Vec<Case> {
        let mut out = Vec::new();
        let n = case.ops.len();
        // drop halves, quarters, then single ops
        let mut chunk = n / 2;
        while chunk >= 1 {
            let mut start = 0;
            while start < n {
                let mut c = case.clone();
                let end = (start + chunk).min(n);
                c.ops.drain(start..end);
                if c.ops.len() < n {
                    out.push(c);
                }
                start += chunk;
            }
            if chunk == 1 {
                break;
            }
            chunk /= 2;
        }
        if case.fail_sweep {
            let mut c = case.clone();
            c.fail_sweep = false;
            out.push(c);
        }
        out
    }
}

fn viol(op: &str, what: &str, detail: String) -> Verdict {
    Verdict::violation(format!("C12:{op}:{what}"), detail)
}

/// Full comparison of the map against the model. Returns the first difference.
fn compare<A: Allocator>(
    map: &CaoHashMap<DK, DV, A>,
    model: &BTreeMap<u64, i64>,
    universe: &[u64],
) -> Option<(&'static str, String)> {
    if map.len() != model.len() {
        return Some((
            "len",
            format!("len() = {} but the model holds {} keys", map.len(), model.len()),
        ));
    }
    if map.is_empty() != model.is_empty() {
        return Some(("is_empty", format!("is_empty() = {}", map.is_empty())));
    }
    for k in universe.iter().chain(model.keys()) {
        let probe = DK::new(*k);
        let got = map.get(&probe).map(|v| v.read());
        let want = model.get(k).copied();
        if got != want {
            let what = match (got, want) {
                (None, Some(_)) => "lost-key",
                (Some(_), None) => "ghost-key",
                _ => "wrong-value",
            };
            return Some((what, format!("get({k}) = {got:?}, model says {want:?}")));
        }
        if map.contains(&probe) != want.is_some() {
            return Some((
                "contains",
                format!("contains({k}) = {} but model says {}", map.contains(&probe), want.is_some()),
            ));
        }
    }
    let mut seen: BTreeMap<u64, i64> = BTreeMap::new();
    let mut n = 0;
    for (k, v) in map.iter() {
        n += 1;
        reg_use(k.id, "key", "iter");
        if seen.insert(k.k, v.read()).is_some() {
            return Some(("iter-duplicate", format!("iter() yields key {} twice", k.k)));
        }
    }
    if n != model.len() || &seen != model {
        return Some((
            "iter",
            format!("iter() yields {seen:?} but the model is {model:?}"),
        ));
    }
    None
}

fn occupied_slots<A: Allocator>(map: &CaoHashMap<DK, DV, A>) -> usize {
    map.iter().count()
}

/// returns (verdict, number of allocations performed)
fn run_history<A: Allocator + Clone>(
    case: &Case,
    alloc: A,
    hooks: Option<&AllocProxy>,
    fail_at: Option<u64>,
    obs: &mut Obs,
) -> (Verdict, u64) {
    reg_reset();
    let verdict = run_history_inner(case, alloc, hooks, fail_at, obs);
    let n_alloc = hooks.map(|h| h.verif.alloc_index.get()).unwrap_or(0);
    let mut v = verdict;
    // drop accounting (everything owned by the history is gone by now)
    let mut errs = reg_take_errors();
    if !v.is_violation() {
        errs.extend(reg_final_check());
    }
    if let Some((s, d)) = errs.into_iter().next() {
        if !v.is_violation() {
            v = Verdict::violation(format!("C12:{s}"), d);
        }
    }
    (v, n_alloc)
}

fn run_history_inner<A: Allocator + Clone>(
    case: &Case,
    alloc: A,
    hooks: Option<&AllocProxy>,
    fail_at: Option<u64>,
    obs: &mut Obs,
) -> Verdict {
    if let Some(h) = hooks {
        h.verif.fail_at.set(fail_at);
        h.verif.start_log();
    }
    let failed_alloc_seen = |obs: &mut Obs| -> bool {
        match hooks {
            Some(h) => {
                let f = h
                    .verif
                    .drain_log()
                    .iter()
                    .any(|e| matches!(e, AllocEvent::Alloc { ok: false, .. }));
                if f {
                    obs.inc("alloc_failures_injected");
                }
                f
            }
            None => false,
        }
    };
    let mut map: CaoHashMap<DK, DV, A> = match CaoHashMap::with_capacity_in(case.init_cap, alloc.clone()) {
        Ok(m) => m,
        Err(_) => {
            if failed_alloc_seen(obs) {
                obs.inc("failed_alloc_reported");
                return Verdict::Ok;
            }
            return viol("with_capacity", "spurious-error", "with_capacity_in failed without an allocation failure".into());
        }
    };
    let _ = failed_alloc_seen(obs);
    let mut model: BTreeMap<u64, i64> = BTreeMap::new();
    let universe = &case.universe;
    let mut growths = 0u64;

    for (step, op) in case.ops.iter().enumerate() {
        let cap_before = map.capacity();
        let name = op.name();
        obs.inc(&format!("op:{name}"));
        // logical hang guard: a probe for an absent key needs an empty slot
        let key_of = match op {
            Op::Insert(k, _)
            | Op::Remove(k)
            | Op::Get(k)
            | Op::GetMut(k, _)
            | Op::Contains(k)
            | Op::Entry(k, _)
            | Op::InsertHint(k, _)
            | Op::RemoveHint(k)
            | Op::GetHint(k)
            | Op::GetHintMut(k, _)
            | Op::ContainsHint(k) => Some(*k),
            _ => None,
        };
        if let Some(k) = key_of {
            if !model.contains_key(&k) && occupied_slots(&map) >= map.capacity() {
                return viol(
                    name,
                    "no-empty-slot",
                    format!(
                        "step {step}: every one of the {} slots is occupied and key {k} is absent: the probe cannot terminate",
                        map.capacity()
                    ),
                );
            }
            let h = cao_hash_u64(k);
            if raw_hash_is_zero(k) {
                obs.inc("zero_hash_key_ops");
            }
            // collision statistics
            if model.keys().any(|o| *o != k && home_slot(cao_hash_u64(*o), cap_before) == home_slot(h, cap_before)) {
                obs.inc("ops_with_colliding_neighbour");
                if matches!(op, Op::Remove(_) | Op::RemoveHint(_)) && model.contains_key(&k) {
                    obs.inc("removals_with_colliding_neighbour");
                }
            }
        }
        let mut expect_err_possible = false;
        match op {
            Op::Insert(k, v) | Op::InsertHint(k, v) => {
                let r = if matches!(op, Op::Insert(..)) {
                    map.insert(DK::new(*k), DV::new(*v)).map(|h| Some(h))
                } else {
                    unsafe { map.insert_with_hint(cao_hash_u64(*k), DK::new(*k), DV::new(*v)).map(|_| None) }
                };
                let failed = failed_alloc_seen(obs);
                match r {
                    Ok(h) => {
                        if failed {
                            return viol(name, "failure-swallowed", format!("step {step}: an allocation failed during {name}({k}) but Ok was returned"));
                        }
                        if let Some(h) = h {
                            if h != cao_hash_u64(*k) {
                                return viol(name, "hash", format!("insert returned hash {h}, expected {}", cao_hash_u64(*k)));
                            }
                        }
                        model.insert(*k, *v);
                    }
                    Err(_) => {
                        if !failed {
                            return viol(name, "spurious-error", format!("step {step}: {name}({k}) returned Err without an allocation failure"));
                        }
                        obs.inc("failed_alloc_reported");
                        expect_err_possible = true;
                        // the new entry may or may not have been stored; every *previous* entry must be intact
                        let probe = DK::new(*k);
                        match map.get(&probe).map(|x| x.read()) {
                            Some(x) if x == *v => {
                                model.insert(*k, *v);
                            }
                            other => {
                                if other != model.get(k).copied() {
                                    return viol(name, "failed-insert-corrupts", format!("step {step}: after failed insert({k},{v}) get({k}) = {other:?}, before it was {:?}", model.get(k)));
                                }
                            }
                        }
                    }
                }
            }
            Op::Remove(k) | Op::RemoveHint(k) => {
                let probe = DK::new(*k);
                let r = if matches!(op, Op::Remove(..)) {
                    map.remove(&probe)
                } else {
                    unsafe { map.remove_with_hint(cao_hash_u64(*k), &probe) }
                };
                let got = r.as_ref().map(|v| v.read());
                let want = model.remove(k);
                if got != want {
                    return viol(name, "result", format!("step {step}: {name}({k}) returned {got:?}, model says {want:?}"));
                }
            }
            Op::Get(k) | Op::GetHint(k) => {
                let probe = DK::new(*k);
                let got = if matches!(op, Op::Get(..)) {
                    map.get(&probe).map(|v| v.read())
                } else {
                    unsafe { map.get_with_hint(cao_hash_u64(*k), &probe).map(|v| v.read()) }
                };
                if got != model.get(k).copied() {
                    return viol(name, "result", format!("step {step}: {name}({k}) = {got:?}, model says {:?}", model.get(k)));
                }
            }
            Op::GetMut(k, v) | Op::GetHintMut(k, v) => {
                let probe = DK::new(*k);
                let got = if matches!(op, Op::GetMut(..)) {
                    map.get_mut(&probe)
                } else {
                    unsafe { map.get_with_hint_mut(cao_hash_u64(*k), &probe) }
                };
                match (got, model.get_mut(k)) {
                    (Some(slot), Some(m)) => {
                        if slot.read() != *m {
                            return viol(name, "result", format!("step {step}: {name}({k}) sees {} but model says {}", slot.v, m));
                        }
                        slot.v = *v;
                        *m = *v;
                    }
                    (None, None) => {}
                    (g, m) => {
                        return viol(name, "result", format!("step {step}: {name}({k}) is_some={} but model is_some={}", g.is_some(), m.is_some()));
                    }
                }
            }
            Op::Contains(k) | Op::ContainsHint(k) => {
                let probe = DK::new(*k);
                let got = if matches!(op, Op::Contains(..)) {
                    map.contains(&probe)
                } else {
                    unsafe { map.contains_with_hint(cao_hash_u64(*k), &probe) }
                };
                if got != model.contains_key(k) {
                    return viol(name, "result", format!("step {step}: {name}({k}) = {got}"));
                }
            }
            Op::Entry(k, v) => {
                let was_present = model.contains_key(k);
                let r = map.entry(DK::new(*k));
                let failed = failed_alloc_seen(obs);
                match r {
                    Ok(e) => {
                        if failed {
                            return viol(name, "failure-swallowed", format!("step {step}: an allocation failed during entry({k}) but Ok was returned"));
                        }
                        let mut called = false;
                        let slot = e.or_insert_with(|| {
                            called = true;
                            DV::new(*v)
                        });
                        let got = slot.read();
                        if called == was_present {
                            return viol(name, "vacancy", format!("step {step}: entry({k}) ran the constructor = {called} but key present = {was_present}"));
                        }
                        let want = *model.entry(*k).or_insert(*v);
                        if got != want {
                            return viol(name, "result", format!("step {step}: entry({k}).or_insert_with = {got}, model says {want}"));
                        }
                        if map.capacity() != cap_before {
                            obs.inc("entry_calls_that_grew");
                        }
                    }
                    Err(_) => {
                        if !failed {
                            return viol(name, "spurious-error", format!("step {step}: entry({k}) returned Err without an allocation failure"));
                        }
                        obs.inc("failed_alloc_reported");
                        expect_err_possible = true;
                    }
                }
            }
            Op::Reserve(n) => {
                let r = map.reserve(*n);
                let failed = failed_alloc_seen(obs);
                match r {
                    Ok(()) => {
                        if failed {
                            return viol(name, "failure-swallowed", format!("step {step}: an allocation failed during reserve but Ok was returned"));
                        }
                        if map.capacity() < cap_before + n {
                            return viol(name, "capacity", format!("step {step}: reserve({n}) left capacity {} (was {cap_before})", map.capacity()));
                        }
                    }
                    Err(_) => {
                        if !failed {
                            return viol(name, "spurious-error", format!("step {step}: reserve({n}) returned Err without an allocation failure"));
                        }
                        obs.inc("failed_alloc_reported");
                        expect_err_possible = true;
                    }
                }
            }
            Op::Clear => {
                map.clear();
                model.clear();
            }
            Op::CloneSwap | Op::CloneDrop => {
                // Clone cannot report an allocation failure (trait signature); not judged under failure
                let saved = hooks.map(|h| h.verif.fail_at.replace(None));
                let c = map.clone();
                if let (Some(h), Some(s)) = (hooks, saved) {
                    h.verif.fail_at.set(s);
                }
                let _ = failed_alloc_seen(obs);
                if let Some((what, d)) = compare(&c, &model, universe) {
                    return viol(name, &format!("clone-{what}"), format!("step {step}: the clone differs: {d}"));
                }
                if matches!(op, Op::CloneSwap) {
                    map = c;
                }
            }
            Op::IterMut(d) => {
                for (k, v) in map.iter_mut() {
                    reg_use(k.id, "key", "iter_mut");
                    v.v = v.read().wrapping_add(*d);
                }
                for (_, v) in model.iter_mut() {
                    *v = v.wrapping_add(*d);
                }
            }
        }
        let _ = expect_err_possible;
        if map.capacity() > cap_before {
            growths += 1;
        }
        if let Some((s, d)) = reg_take_errors().into_iter().next() {
            return viol(name, &s, format!("step {step} ({op:?}): {d}"));
        }
        if occupied_slots(&map) >= map.capacity() {
            return viol(
                name,
                "table-full",
                format!(
                    "step {step}: {op:?} left the map with every one of its {} slots occupied: a lookup of any absent key cannot terminate",
                    map.capacity()
                ),
            );
        }
        if let Some((what, d)) = compare(&map, &model, universe) {
            return viol(name, what, format!("step {step} after {op:?}: {d}"));
        }
        obs.inc("ops_compared");
    }
    obs.add("growth_steps", growths);
    if growths >= 2 && case.ops.len() >= 20 {
        obs.nontrivial = true;
    }
    drop(map);
    Verdict::Ok
}
