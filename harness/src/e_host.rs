//! C18: host functions receive the right arguments and can safely re-enter scripts.
use crate::dval::{deep, err_kind, DVal};
use crate::gen::*;
use crate::prng::Prng;
use crate::runner::{Engine, Obs, Tier, Verdict};
use crate::vmrun::{new_vm, Aux, VmConfig};
use cao_lang::compiler::{compile, Card, CardBody, CompileOptions, Function, Module};
use cao_lang::prelude::*;
use serde::{Deserialize, Serialize};

#[derive(Clone, Serialize, Deserialize)]
pub struct Case {
    pub seed: u64,
}

pub struct HostEngine {}

type NR = Result<Value, ExecutionErrorPayload>;

fn rec(vm: &mut Vm<Aux>, name: &str, got: Vec<DVal>) {
    vm.auxiliary_data.log.push((name.to_string(), got));
}
fn table_dval(t: &CaoLangTable) -> DVal {
    DVal::Table(t.iter().map(|(k, v)| (deep(*k), deep(*v))).collect())
}
fn b(x: bool) -> DVal {
    DVal::Str(format!("bool:{x}"))
}
fn opt_i(x: &Nilable<i64>) -> DVal {
    match x.0 {
        None => DVal::Str("none".into()),
        Some(i) => DVal::Int(i),
    }
}
fn opt_s(x: &Nilable<&str>) -> DVal {
    match x.0 {
        None => DVal::Str("none".into()),
        Some(s) => DVal::Str(s.to_string()),
    }
}

fn h_v(vm: &mut Vm<Aux>, a: Value) -> NR {
    rec(vm, "h_v", vec![deep(a)]);
    Ok(Value::Integer(1001))
}
fn h_i(vm: &mut Vm<Aux>, a: i64) -> NR {
    rec(vm, "h_i", vec![DVal::Int(a)]);
    Ok(Value::Integer(1002))
}
fn h_f(vm: &mut Vm<Aux>, a: f64) -> NR {
    rec(vm, "h_f", vec![DVal::real(a)]);
    Ok(Value::Real(10.5))
}
fn h_b(vm: &mut Vm<Aux>, a: bool) -> NR {
    rec(vm, "h_b", vec![b(a)]);
    Ok(Value::Nil)
}
fn h_s(vm: &mut Vm<Aux>, a: &str) -> NR {
    rec(vm, "h_s", vec![DVal::Str(a.to_string())]);
    let s = vm.init_string("returned")?;
    Ok(Value::Object(s.into_inner()))
}
fn h_t(vm: &mut Vm<Aux>, a: &CaoLangTable) -> NR {
    rec(vm, "h_t", vec![table_dval(a)]);
    Ok(Value::Integer(a.len() as i64))
}
fn h_tm(vm: &mut Vm<Aux>, a: *mut CaoLangTable) -> NR {
    let d = table_dval(unsafe { &*a });
    rec(vm, "h_tm", vec![d]);
    Ok(Value::Integer(1007))
}
fn h_ni(vm: &mut Vm<Aux>, a: Nilable<i64>) -> NR {
    rec(vm, "h_ni", vec![opt_i(&a)]);
    Ok(Value::Integer(1008))
}
fn h_ns(vm: &mut Vm<Aux>, a: Nilable<&str>) -> NR {
    rec(vm, "h_ns", vec![opt_s(&a)]);
    Ok(Value::Integer(1009))
}
fn h_if(vm: &mut Vm<Aux>, a: i64, c: f64) -> NR {
    rec(vm, "h_if", vec![DVal::Int(a), DVal::real(c)]);
    Ok(Value::Integer(2001))
}
fn h_sv(vm: &mut Vm<Aux>, a: &str, c: Value) -> NR {
    rec(vm, "h_sv", vec![DVal::Str(a.to_string()), deep(c)]);
    Ok(c)
}
fn h_vb(vm: &mut Vm<Aux>, a: Value, c: bool) -> NR {
    rec(vm, "h_vb", vec![deep(a), b(c)]);
    Ok(a)
}
fn h_ti(vm: &mut Vm<Aux>, a: &CaoLangTable, c: i64) -> NR {
    rec(vm, "h_ti", vec![table_dval(a), DVal::Int(c)]);
    Ok(Value::Integer(2004))
}
fn h_isf(vm: &mut Vm<Aux>, a: i64, c: &str, d: f64) -> NR {
    rec(vm, "h_isf", vec![DVal::Int(a), DVal::Str(c.to_string()), DVal::real(d)]);
    Ok(Value::Integer(3001))
}
fn h_vvv(vm: &mut Vm<Aux>, a: Value, c: Value, d: Value) -> NR {
    rec(vm, "h_vvv", vec![deep(a), deep(c), deep(d)]);
    Ok(c)
}
fn h_ifbs(vm: &mut Vm<Aux>, a: i64, c: f64, d: bool, e: &str) -> NR {
    rec(vm, "h_ifbs", vec![DVal::Int(a), DVal::real(c), b(d), DVal::Str(e.to_string())]);
    Ok(Value::Integer(4001))
}
fn h_vvvv(vm: &mut Vm<Aux>, a: Value, c: Value, d: Value, e: Value) -> NR {
    rec(vm, "h_vvvv", vec![deep(a), deep(c), deep(d), deep(e)]);
    Ok(e)
}
fn h_0(vm: &mut Vm<Aux>) -> NR {
    rec(vm, "h_0", vec![]);
    Ok(Value::Integer(5))
}
fn h_err(vm: &mut Vm<Aux>, _a: Value) -> NR {
    rec(vm, "h_err", vec![]);
    Err(ExecutionErrorPayload::invalid_argument("host says no"))
}

/// probe(f, a, b): calls f(a, b) through run_function and checks the stacks around the call
fn probe2(vm: &mut Vm<Aux>, f: Value, a: Value, c: Value) -> NR {
    let h0 = vm.runtime_data.verif_value_stack().len();
    let d0 = vm.runtime_data.verif_call_depth();
    let below: Vec<DVal> = vm.runtime_data.verif_value_stack().iter().map(|v| deep(*v)).collect();
    vm.stack_push(a)?;
    vm.stack_push(c)?;
    let r = vm.run_function(f)?;
    let h1 = vm.runtime_data.verif_value_stack().len();
    let d1 = vm.runtime_data.verif_call_depth();
    let below1: Vec<DVal> = vm.runtime_data.verif_value_stack().iter().take(h0).map(|v| deep(*v)).collect();
    let same = below == below1;
    rec(vm, "probe2", vec![DVal::Int(h1 as i64 - h0 as i64), DVal::Int(d1 as i64 - d0 as i64), DVal::Str(format!("stack-below-unchanged:{same}")), deep(r)]);
    Ok(r)
}
fn probe0(vm: &mut Vm<Aux>, f: Value) -> NR {
    let h0 = vm.runtime_data.verif_value_stack().len();
    let d0 = vm.runtime_data.verif_call_depth();
    let r = vm.run_function(f)?;
    let h1 = vm.runtime_data.verif_value_stack().len();
    let d1 = vm.runtime_data.verif_call_depth();
    rec(vm, "probe0", vec![DVal::Int(h1 as i64 - h0 as i64), DVal::Int(d1 as i64 - d0 as i64), deep(r)]);
    Ok(r)
}

fn register(vm: &mut Vm<Aux>) {
    vm.register_native_function("h_0", h_0).unwrap();
    vm.register_native_function("h_v", into_f1(h_v)).unwrap();
    vm.register_native_function("h_i", into_f1(h_i)).unwrap();
    vm.register_native_function("h_f", into_f1(h_f)).unwrap();
    vm.register_native_function("h_b", into_f1(h_b)).unwrap();
    vm.register_native_function("h_s", into_f1(h_s)).unwrap();
    vm.register_native_function("h_t", into_f1(h_t)).unwrap();
    vm.register_native_function("h_tm", into_f1(h_tm)).unwrap();
    vm.register_native_function("h_ni", into_f1(h_ni)).unwrap();
    vm.register_native_function("h_ns", into_f1(h_ns)).unwrap();
    vm.register_native_function("h_if", into_f2(h_if)).unwrap();
    vm.register_native_function("h_sv", into_f2(h_sv)).unwrap();
    vm.register_native_function("h_vb", into_f2(h_vb)).unwrap();
    vm.register_native_function("h_ti", into_f2(h_ti)).unwrap();
    vm.register_native_function("h_isf", into_f3(h_isf)).unwrap();
    vm.register_native_function("h_vvv", into_f3(h_vvv)).unwrap();
    vm.register_native_function("h_ifbs", into_f4(h_ifbs)).unwrap();
    vm.register_native_function("h_vvvv", into_f4(h_vvvv)).unwrap();
    vm.register_native_function("h_err", into_f1(h_err)).unwrap();
    vm.register_native_function("probe2", into_f3(probe2)).unwrap();
    vm.register_native_function("probe0", into_f1(probe0)).unwrap();
}

#[derive(Clone, Copy, Debug, PartialEq)]
enum Ty {
    V,
    I,
    F,
    B,
    S,
    T,
    Ni,
    Ns,
}

const NATIVES: [(&str, &[Ty]); 18] = [
    ("h_0", &[]),
    ("h_v", &[Ty::V]),
    ("h_i", &[Ty::I]),
    ("h_f", &[Ty::F]),
    ("h_b", &[Ty::B]),
    ("h_s", &[Ty::S]),
    ("h_t", &[Ty::T]),
    ("h_tm", &[Ty::T]),
    ("h_ni", &[Ty::Ni]),
    ("h_ns", &[Ty::Ns]),
    ("h_if", &[Ty::I, Ty::F]),
    ("h_sv", &[Ty::S, Ty::V]),
    ("h_vb", &[Ty::V, Ty::B]),
    ("h_ti", &[Ty::T, Ty::I]),
    ("h_isf", &[Ty::I, Ty::S, Ty::F]),
    ("h_vvv", &[Ty::V, Ty::V, Ty::V]),
    ("h_ifbs", &[Ty::I, Ty::F, Ty::B, Ty::S]),
    ("h_vvvv", &[Ty::V, Ty::V, Ty::V, Ty::V]),
];

#[derive(Clone, Debug)]
enum Arg {
    Nil,
    Int(i64),
    Real(f64),
    Str(String),
    Table(usize),
    Func,
}

impl Arg {
    fn card(&self) -> Card {
        match self {
            Arg::Nil => nil(),
            Arg::Int(i) => int(*i),
            Arg::Real(f) => real(*f),
            Arg::Str(s) => strc(s),
            // tables are built by statements beforehand (see `prelude`) and passed by variable
            Arg::Table(n) => read(format!("tab{n}")),
            Arg::Func => CardBody::Function("helper".into()).into(),
        }
    }
    fn dval(&self) -> DVal {
        match self {
            Arg::Nil => DVal::Nil,
            Arg::Int(i) => DVal::Int(*i),
            Arg::Real(f) => DVal::real(*f),
            Arg::Str(s) => DVal::Str(s.clone()),
            Arg::Table(n) => DVal::Table((0..*n).map(|i| (DVal::Int(i as i64), DVal::Int(i as i64 * 10))).collect()),
            Arg::Func => DVal::Func("function".into(), 0),
        }
    }
    fn truthy(&self) -> bool {
        match self {
            Arg::Nil => false,
            Arg::Int(i) => *i != 0,
            Arg::Real(f) => *f != 0.0,
            Arg::Str(s) => !s.is_empty(),
            Arg::Table(n) => *n != 0,
            Arg::Func => true,
        }
    }
    fn kind(&self) -> &'static str {
        match self {
            Arg::Nil => "nil",
            Arg::Int(_) => "int",
            Arg::Real(_) => "real",
            Arg::Str(_) => "str",
            Arg::Table(_) => "table",
            Arg::Func => "func",
        }
    }
}

/// what the host function may observe for this parameter: Some(list of acceptable values), and may it be rejected?
fn expect(ty: Ty, a: &Arg) -> (Vec<DVal>, bool) {
    let len = match a {
        Arg::Str(s) => s.len() as i64,
        Arg::Table(n) => *n as i64,
        _ => 0,
    };
    match ty {
        Ty::V => (vec![a.dval()], false),
        Ty::B => (vec![b(a.truthy())], false),
        Ty::I => match a {
            Arg::Int(i) => (vec![DVal::Int(*i)], false),
            Arg::Real(f) => (vec![DVal::Int(*f as i64)], true),
            Arg::Nil => (vec![DVal::Int(0)], true),
            _ => (vec![DVal::Int(len)], true),
        },
        Ty::F => match a {
            Arg::Real(f) => (vec![DVal::real(*f)], false),
            Arg::Int(i) => (vec![DVal::real(*i as f64)], true),
            Arg::Nil => (vec![DVal::real(0.0)], true),
            _ => (vec![DVal::real(len as f64)], true),
        },
        Ty::S => match a {
            Arg::Str(s) => (vec![DVal::Str(s.clone())], false),
            _ => (vec![], true),
        },
        Ty::T => match a {
            Arg::Table(_) => (vec![a.dval()], false),
            _ => (vec![], true),
        },
        Ty::Ni => match a {
            Arg::Nil => (vec![DVal::Str("none".into())], false),
            other => expect(Ty::I, other),
        },
        Ty::Ns => match a {
            Arg::Nil => (vec![DVal::Str("none".into())], false),
            other => expect(Ty::S, other),
        },
    }
}

fn gen_arg(rng: &mut Prng) -> Arg {
    match rng.below(9) {
        0 => Arg::Nil,
        1 | 2 => Arg::Int(*rng.pick(&[0i64, 1, -7, 42, i64::MAX])),
        3 | 4 => Arg::Real(*rng.pick(&[0.0f64, 1.5, -2.75, 1e6])),
        5 | 6 => Arg::Str(rng.pick(&["", "x", "héé", "some text"]).to_string()),
        7 => Arg::Table(rng.below(4)),
        _ => Arg::Func,
    }
}

/// an argument the parameter type certainly accepts
fn gen_good_arg(rng: &mut Prng, ty: Ty) -> Arg {
    match ty {
        Ty::V => gen_arg(rng),
        Ty::B => gen_arg(rng),
        Ty::I => Arg::Int(rng.range(-9, 99)),
        Ty::F => Arg::Real(rng.range(-9, 9) as f64 / 2.0),
        Ty::S => Arg::Str(rng.pick(&["", "x", "héé", "some text"]).to_string()),
        Ty::T => Arg::Table(rng.below(4)),
        Ty::Ni => {
            if rng.chance(1, 2) {
                Arg::Nil
            } else {
                Arg::Int(rng.range(0, 9))
            }
        }
        Ty::Ns => {
            if rng.chance(1, 2) {
                Arg::Nil
            } else {
                Arg::Str("opt".into())
            }
        }
    }
}

struct Expectation {
    name: String,
    params: Vec<(Vec<DVal>, bool)>,
    kinds: Vec<&'static str>,
    path: &'static str,
}

struct Built {
    module: Module,
    expectations: Vec<Expectation>,
}

fn build(seed: u64) -> Built {
    let mut rng = Prng::new(seed);
    let rng = &mut rng;
    let depth = rng.below(4);
    let mut expectations = Vec::new();
    let mut body: Vec<Card> = vec![set("_", nil()), set("keep", strc("local-survives"))];
    for n in 0..4usize {
        body.push(set(format!("tab{n}"), CardBody::CreateTable.into()));
        for i in 0..n {
            body.push(bin("append", int(i as i64 * 10), read(format!("tab{n}"))));
        }
    }
    let n_calls = rng.range(1, 5);
    for ci in 0..n_calls {
        let (name, tys) = *rng.pick(&NATIVES);
        let last = ci == n_calls - 1;
        // only the last call may use arbitrary (possibly rejected) arguments: a rejection ends the run
        let args: Vec<Arg> = tys.iter().map(|t| if last && rng.chance(1, 2) { gen_arg(rng) } else { gen_good_arg(rng, *t) }).collect();
        let cards: Vec<Card> = args.iter().map(|a| a.card()).collect();
        let path = *rng.pick(&["callnative", "callnative", "dynamic", "reentry"]);
        let callc = match path {
            "callnative" => native(name, cards),
            "dynamic" => dyncall(CardBody::NativeFunction(name.into()).into(), cards),
            _ => {
                if tys.len() == 2 {
                    // the host function is itself called by a host function that re-enters the VM
                    native("probe2", vec![CardBody::NativeFunction(name.into()).into(), cards[0].clone(), cards[1].clone()])
                } else if tys.is_empty() {
                    native("probe0", vec![CardBody::NativeFunction(name.into()).into()])
                } else {
                    native(name, cards)
                }
            }
        };
        let path = if path == "reentry" && !(tys.len() == 2 || tys.is_empty()) { "callnative" } else { path };
        expectations.push(Expectation {
            name: name.to_string(),
            params: tys.iter().zip(args.iter()).map(|(t, a)| expect(*t, a)).collect(),
            kinds: args.iter().map(|a| a.kind()).collect(),
            path,
        });
        // the returned value becomes the value of the call card
        body.push(discard(native("h_v", vec![callc])));
        let result: Vec<DVal> = match name {
            "h_0" => vec![DVal::Int(5)],
            "h_v" => vec![DVal::Int(1001)],
            "h_i" => vec![DVal::Int(1002)],
            "h_f" => vec![DVal::real(10.5)],
            "h_b" => vec![DVal::Nil],
            "h_s" => vec![DVal::Str("returned".into())],
            "h_t" => vec![DVal::Int(match &args[0] { Arg::Table(n) => *n as i64, _ => -1 })],
            "h_tm" => vec![DVal::Int(1007)],
            "h_ni" => vec![DVal::Int(1008)],
            "h_ns" => vec![DVal::Int(1009)],
            "h_if" => vec![DVal::Int(2001)],
            "h_sv" => vec![args[1].dval()],
            "h_vb" => vec![args[0].dval()],
            "h_ti" => vec![DVal::Int(2004)],
            "h_isf" => vec![DVal::Int(3001)],
            "h_vvv" => vec![args[1].dval()],
            "h_ifbs" => vec![DVal::Int(4001)],
            _ => vec![args[3].dval()],
        };
        expectations.push(Expectation { name: "h_v".into(), params: vec![(result, false)], kinds: vec!["result"], path: "result" });
    }
    body.push(discard(native("h_v", vec![read("keep")])));
    // script callees through run_function
    let mut m = Module::default();
    m.functions.push(("helper".into(), Function { arguments: vec![], cards: vec![un("ret", int(77))] }));
    m.functions.push(("add2".into(), Function { arguments: vec!["x".into(), "y".into()], cards: vec![set("_", nil()), set("l", int(5)), un("ret", bin("sub", read("x"), read("y")))] }));
    m.functions.push(("early".into(), Function { arguments: vec!["x".into(), "y".into()], cards: vec![set("_", nil()), repeat(int(3), Some("i"), comp(vec![bin("iftrue", int(1), un("ret", read("y")))])), un("ret", int(-1))] }));
    m.functions.push(("nested".into(), Function { arguments: vec!["x".into(), "y".into()], cards: vec![set("_", nil()), un("ret", native("probe2", vec![CardBody::Function("add2".into()).into(), read("y"), read("x")]))] }));
    // wrap in `depth` frames with live locals
    let mut callee_body = body;
    for d in 0..depth {
        let name = format!("lvl{d}");
        let mut cards = callee_body;
        cards.push(un("ret", int(d as i64)));
        m.functions.push((name.clone(), Function { arguments: vec!["p".into()], cards }));
        callee_body = vec![set("_", nil()), set("mine", int(100 + d as i64)), discard(call(&name, vec![int(d as i64)])), discard(native("h_v", vec![read("mine")]))];
    }
    m.functions.insert(0, ("main".into(), Function { arguments: vec![], cards: callee_body }));
    Built { module: m, expectations }
}

fn viol(what: &str, d: String) -> Verdict {
    Verdict::violation(format!("C18:{what}"), d)
}

impl Engine for HostEngine {
    type Case = Case;
    fn name(&self) -> &'static str {
        "host"
    }
    fn gen(&mut self, rng: &mut Prng, _tier: Tier) -> Case {
        Case { seed: rng.next_u64() }
    }
    fn describe(&self, case: &Case) -> serde_json::Value {
        let b = build(case.seed);
        serde_json::json!({"seed": case.seed, "program": crate::pp::module(&b.module, ""),
            "expected_calls": b.expectations.iter().filter(|e| e.path != "result").map(|e| format!("{} via {} with {:?}", e.name, e.path, e.kinds)).collect::<Vec<_>>()})
    }
    fn run(&mut self, case: &Case, obs: &mut Obs) -> Verdict {
        let mut rng = Prng::new(case.seed ^ 0x77);
        let cfg = VmConfig::default();
        // ---- names reserved for the library cannot be registered
        {
            let mut vm = new_vm(&cfg, &[]);
            for n in ["__min", "__x", "__", "__sort"] {
                if vm.register_native_function(n, h_0).is_ok() {
                    return viol("reserved-name-accepted", format!("register_native_function({n:?}) succeeded"));
                }
            }
            obs.inc("reserved_names_rejected");
        }
        // ---- host functions whose names have the same 32-bit hash: each name reaches its own function, or the
        //      second registration is refused and the first keeps working
        if rng.chance(1, 8) {
            let pairs = [("costarring", "liquid"), ("declinate", "macallums"), ("altarage", "zinke"), ("altarages", "zinkes")];
            let (mut n1, mut n2) = *rng.pick(&pairs);
            if rng.chance(1, 2) {
                std::mem::swap(&mut n1, &mut n2);
            }
            let mut vm = new_vm(&cfg, &[]);
            let r1 = vm.register_native_function(n1, into_f1(|vm: &mut Vm<Aux>, a: Value| -> NR {
                rec(vm, "first", vec![deep(a)]);
                Ok(Value::Integer(1))
            }));
            if r1.is_err() {
                return viol("collision:first-refused", format!("registering {n1:?} on a fresh VM failed"));
            }
            let r2 = vm.register_native_function(n2, into_f1(|vm: &mut Vm<Aux>, a: Value| -> NR {
                rec(vm, "second", vec![deep(a)]);
                Ok(Value::Integer(2))
            }));
            let mut m = Module::default();
            let mut main = vec![set("_", nil()), setg("r1", native(n1, vec![int(11)]))];
            if r2.is_ok() {
                main.push(setg("r2", native(n2, vec![int(22)])));
            }
            m.functions.push(("main".into(), Function { arguments: vec![], cards: main }));
            let program = match compile(m, CompileOptions::new()) {
                Ok(p) => p,
                Err(e) => return Verdict::Inconclusive { reason: format!("harness program does not compile: {e}") },
            };
            let r = vm.run(&program);
            if let Err(e) = &r {
                return viol("collision:run-failed", format!("calling {n1:?} (and {n2:?}) failed: {}", e.payload));
            }
            let names: Vec<String> = vm.auxiliary_data.log.iter().map(|(n, a)| format!("{n}{:?}", a.iter().map(|x| x.short()).collect::<Vec<_>>())).collect();
            let want: Vec<String> = if r2.is_ok() { vec!["first[\"11\"]".into(), "second[\"22\"]".into()] } else { vec!["first[\"11\"]".into()] };
            if names != want {
                return viol(
                    "collision:wrong-function",
                    format!("host functions {n1:?} and {n2:?} (equal name hashes; second registration {}): the script called {n1:?}(11){} and the host saw {names:?}, expected {want:?}",
                        if r2.is_ok() { "accepted" } else { "refused" }, if r2.is_ok() { format!(" and {n2:?}(22)") } else { String::new() }),
                );
            }
            obs.inc(if r2.is_ok() { "colliding_names_dispatched" } else { "colliding_registration_refused" });
        }
        // ---- a host function failing below another host function: every level's error carries that function's name
        if rng.chance(1, 10) {
            let levels = rng.range(1, 3) as usize;
            let mut m = Module::default();
            // inner-most: a script function that calls the failing host function
            m.functions.push(("lvl0".into(), Function { arguments: vec!["x".into()], cards: vec![un("ret", native("fail", vec![]))] }));
            for k in 1..=levels {
                let callee: Card = CardBody::Function(format!("lvl{}", k - 1)).into();
                let c = match rng.below(3) {
                    0 => native("apply1", vec![callee, read("x")]),
                    1 => dyncall(CardBody::NativeFunction("apply1".into()).into(), vec![callee, read("x")]),
                    _ => native("apply1", vec![closure(&["y"], vec![un("ret", call(&format!("lvl{}", k - 1), vec![read("y")]))]), read("x")]),
                };
                m.functions.push((format!("lvl{k}"), Function { arguments: vec!["x".into()], cards: vec![un("ret", c)] }));
            }
            m.functions.insert(0, ("main".into(), Function { arguments: vec![], cards: vec![set("_", nil()), set("_", call(&format!("lvl{levels}"), vec![int(1)]))] }));
            let program = match compile(m, CompileOptions::new()) {
                Ok(p) => p,
                Err(e) => return Verdict::Inconclusive { reason: format!("harness program does not compile: {e}") },
            };
            let mut vm = new_vm(&cfg, &[]);
            let got = match vm.run(&program) {
                Ok(()) => return viol("nested-failure:no-error", "a host function failed below other host functions, but the run succeeded".into()),
                Err(e) => err_kind(&e.payload),
            };
            let mut want = "TaskFailure[fail:InvalidArgument]".to_string();
            for _ in 0..levels {
                want = format!("TaskFailure[apply1:{want}]");
            }
            if got != want {
                return viol("nested-failure:chain", format!("host function `fail` failed below {levels} level(s) of `apply1`: the error is {got}, every level should carry its function's name: {want}"));
            }
            obs.inc("nested_host_failures_checked");
        }
        // ---- re-entry scenarios with a known answer
        if rng.chance(1, 3) {
            let callee = *rng.pick(&["add2", "early", "nested", "closure", "native"]);
            let mut m = build(case.seed).module;
            let fcard: Card = match callee {
                "closure" => closure(&["x", "y"], vec![set("cap", bin("add", read("cap"), int(1))), un("ret", bin("add", bin("sub", read("x"), read("y")), read("cap")))]),
                "native" => CardBody::NativeFunction("h_if".into()).into(),
                other => CardBody::Function(other.into()).into(),
            };
            let (a, c) = (rng.range(1, 50), rng.range(1, 50));
            let main = vec![
                set("_", nil()),
                set("cap", int(1000)),
                set("before", strc("kept")),
                set("r", native("probe2", vec![fcard, int(a), real(c as f64 + 0.5)])),
                discard(native("h_vvv", vec![read("r"), read("before"), read("cap")])),
            ];
            m.functions.retain(|(n, _)| n != "main" && !n.starts_with("lvl"));
            m.functions.insert(0, ("main".into(), Function { arguments: vec![], cards: main }));
            let program = match compile(m, CompileOptions::new()) {
                Ok(p) => p,
                Err(e) => return Verdict::Inconclusive { reason: format!("harness program does not compile: {e}") },
            };
            let mut vm = new_vm(&cfg, &[]);
            register(&mut vm);
            let r = vm.run(&program);
            obs.inc(&format!("reentry:{callee}"));
            if let Err(e) = &r {
                return viol("reentry:failed", format!("probe2 -> {callee} failed: {}", e.payload));
            }
            let cf = c as f64 + 0.5;
            // pushed in order (a, c): the callee's first parameter receives the last pushed value
            let want: DVal = match callee {
                "add2" | "nested" => DVal::real(if callee == "add2" { cf - a as f64 } else { cf - a as f64 }),
                "early" => DVal::Int(a),
                "closure" => DVal::real(cf - a as f64 + 1001.0),
                _ => DVal::Int(2001),
            };
            let log = &vm.auxiliary_data.log;
            let probes: Vec<&(String, Vec<DVal>)> = log.iter().filter(|(n, _)| n == "probe2").collect();
            if probes.is_empty() {
                return viol("reentry:probe-not-run", "probe2 did not record anything".into());
            }
            for (_, p) in probes.iter() {
                if p[0] != DVal::Int(0) || p[1] != DVal::Int(0) {
                    return viol(
                        "reentry:stacks-not-restored",
                        format!("after run_function({callee}) the value stack height changed by {:?} and the call depth by {:?}", p[0], p[1]),
                    );
                }
                // (a closure that assigns a captured variable of the caller legitimately writes the caller's slot)
                if callee != "closure" && p[2] != DVal::Str("stack-below-unchanged:true".into()) {
                    return viol("reentry:caller-stack-changed", format!("run_function({callee}) changed the caller's part of the value stack"));
                }
            }
            let outer = probes.last().unwrap();
            if outer.1[3] != want {
                return viol(&format!("reentry:result:{callee}"), format!("run_function({callee}) with arguments ({a}, {cf}) returned {}, expected {}", outer.1[3].short(), want.short()));
            }
            if callee == "native" {
                let seen = log.iter().find(|(n, _)| n == "h_if");
                if seen.map(|(_, p)| p.clone()) != Some(vec![DVal::Int(a), DVal::real(cf)]) {
                    return viol("reentry:native-args", format!("a native called through run_function saw {:?}, pushed ({a}, {cf})", seen));
                }
            }
            // caller variables and the captured variable afterwards
            let fin = log.iter().find(|(n, _)| n == "h_vvv").map(|(_, p)| p.clone());
            let cap_want = if callee == "closure" { 1001 } else { 1000 };
            if fin.as_ref().map(|p| (&p[1], &p[2])) != Some((&DVal::Str("kept".into()), &DVal::Int(cap_want))) {
                return viol("reentry:caller-variables", format!("after the re-entry the caller sees {fin:?} (expected before = \"kept\", cap = {cap_want})"));
            }
            obs.inc("reentries_checked");
            obs.nontrivial = true;
            return Verdict::Ok;
        }
        // ---- typed parameters
        let built = build(case.seed);
        if std::env::var("CAOVERIF_PP").is_ok() {
            eprintln!("{}", crate::pp::module(&built.module, ""));
        }
        let program = match compile(built.module.clone(), CompileOptions::new()) {
            Ok(p) => p,
            Err(e) => return Verdict::Inconclusive { reason: format!("harness program does not compile: {e}") },
        };
        let mut vm = new_vm(&cfg, &[]);
        register(&mut vm);
        let r = vm.run(&program);
        let log: Vec<(String, Vec<DVal>)> = vm.auxiliary_data.log.iter().filter(|(n, _)| n != "probe2" && n != "probe0").cloned().collect();
        let mut li = 0;
        for (ei, e) in built.expectations.iter().enumerate() {
            if e.path == "result" {
                // the h_v that logged the previous call's result
                if li >= log.len() || log[li].0 != "h_v" {
                    return viol("result-not-delivered", format!("call #{ei}: the value returned by the host function was not passed on"));
                }
                if !crate::e_prog::dval_eq(&log[li].1[0], &e.params[0].0[0]) {
                    return viol("wrong-result", format!("call #{ei}: the call card's value is {}, the host function returned {}", log[li].1[0].short(), e.params[0].0[0].short()));
                }
                li += 1;
                continue;
            }
            let may_reject = e.params.iter().any(|(_, rej)| *rej);
            let must_reject = e.params.iter().any(|(ok, _)| ok.is_empty());
            obs.inc(&format!("path:{}:arity{}", e.path, e.params.len()));
            for (k, kind) in e.kinds.iter().enumerate() {
                obs.inc(&format!("conv:{}<-{kind}", NATIVES.iter().find(|(n, _)| *n == e.name).map(|(_, t)| format!("{:?}", t[k])).unwrap_or_default()));
            }
            let called = log.get(li).map(|(n, _)| n == &e.name).unwrap_or(false);
            if called {
                if must_reject {
                    return viol(&format!("accepted-unconvertible:{}", e.name), format!("{}({:?}) was called although an argument has no conversion: {:?}", e.name, e.kinds, log[li].1));
                }
                let got = &log[li].1;
                for (k, (ok, _)) in e.params.iter().enumerate() {
                    if !ok.contains(&got[k]) {
                        return viol(
                            &format!("wrong-argument:{}:{}", e.name, e.kinds[k]),
                            format!("{} via {}: parameter #{} received {} for a {} argument, expected {}", e.name, e.path, k + 1, got[k].short(), e.kinds[k], ok.iter().map(|d| d.short()).collect::<Vec<_>>().join(" or ")),
                        );
                    }
                }
                li += 1;
            } else {
                // not called: must be a well-formed rejection that ends the run
                if !may_reject {
                    return viol(&format!("not-called:{}", e.name), format!("{}({:?}) via {} was never invoked; log so far {:?}, run result {:?}", e.name, e.kinds, e.path, &log[li.min(log.len())..], r.as_ref().err().map(|x| x.payload.to_string())));
                }
                let Err(err) = &r else {
                    return viol(&format!("rejection-not-reported:{}", e.name), format!("{} was not invoked but the run succeeded", e.name));
                };
                let kind = err_kind(&err.payload);
                let (inner_name, ctx) = innermost_failure(&err.payload);
                if !kind.contains("InvalidArgument") || inner_name.as_deref() != Some(e.name.as_str()) {
                    return viol(&format!("malformed-rejection:{}", e.name), format!("rejecting an argument of {} produced {} ({})", e.name, kind, err.payload));
                }
                // the message names the parameter: the first (from the last) parameter whose conversion may fail
                let candidates: Vec<usize> = e.params.iter().enumerate().filter(|(_, (_, rej))| *rej).map(|(k, _)| k + 1).collect();
                if !candidates.iter().any(|k| ctx.contains(&format!("#{k}:")) || ctx.contains(&format!("#{k} ")) || ctx.ends_with(&format!("#{k}"))) {
                    return viol(&format!("rejection-names-wrong-parameter:{}", e.name), format!("the rejection of {}({:?}) says {ctx:?}; parameters that can be rejected: {candidates:?}", e.name, e.kinds));
                }
                obs.inc("rejections_checked");
                obs.nontrivial = true;
                return Verdict::Ok;
            }
        }
        if let Err(e) = &r {
            return viol("unexpected-error", format!("all conversions are fine but the run failed: {}", e.payload));
        }
        // caller locals at every level
        let tail: Vec<&(String, Vec<DVal>)> = log[li.min(log.len())..].iter().collect();
        if tail.first().map(|(_, p)| p.clone()) != Some(vec![DVal::Str("local-survives".into())]) {
            return viol("caller-locals", format!("the local declared before the host calls reads {:?} afterwards", tail.first()));
        }
        obs.inc("typed_call_programs");
        obs.nontrivial = true;
        Verdict::Ok
    }
}

fn innermost_failure(p: &ExecutionErrorPayload) -> (Option<String>, String) {
    match p {
        ExecutionErrorPayload::TaskFailure { name, error } => match &**error {
            ExecutionErrorPayload::TaskFailure { .. } => innermost_failure(error),
            ExecutionErrorPayload::InvalidArgument { context } => (Some(name.clone()), context.clone().unwrap_or_default()),
            other => (Some(name.clone()), other.to_string()),
        },
        other => (None, other.to_string()),
    }
}
