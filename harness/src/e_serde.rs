//! C11: serialization round trips of source modules, compiled programs and runtime values.
use crate::dval::{deep, DVal};
use crate::e_gc::outcomes_differ;
use crate::gen::*;
use crate::prng::Prng;
use crate::runner::{Engine, Obs, Tier, Verdict};
use crate::shrink::shrink_module;
use crate::vmrun::{new_vm, observe, VmConfig};
use cao_lang::compiler::{compile, CardBody, CompileOptions, Function, Module};
use cao_lang::prelude::*;
use serde::{Deserialize, Serialize};

#[derive(Clone, Serialize, Deserialize)]
pub struct Case {
    pub module: Module,
    pub source: String,
    pub value_seed: u64,
}

pub struct SerdeEngine {}

/// canonical, order independent description of a compiled program
fn fingerprint(p: &CaoCompiledProgram) -> Vec<(String, String)> {
    let mut labels: Vec<(u32, u32)> = p.labels.0.iter().map(|(h, l)| (h.value(), l.pos)).collect();
    labels.sort();
    let mut ids: Vec<(u32, u32)> = p.variables.ids.iter().map(|(h, id)| (h.value(), bytemuck::cast::<_, u32>(*id))).collect();
    ids.sort();
    let mut names: Vec<(u32, String)> = p.variables.names.iter().map(|(h, n)| (h.value(), n.clone())).collect();
    names.sort();
    let mut trace: Vec<(u32, String)> = p.trace.iter().map(|(k, t)| (*k, format!("{:?}/{}", t.namespace, t.index))).collect();
    trace.sort();
    vec![
        ("bytecode".into(), format!("{:?}", p.bytecode)),
        ("data".into(), format!("{:?}", p.data)),
        ("labels".into(), format!("{labels:?}")),
        ("variable ids".into(), format!("{ids:?}")),
        ("variable names".into(), format!("{names:?}")),
        ("trace".into(), format!("{trace:?}")),
        ("version".into(), p.cao_lang_version.clone()),
    ]
}

fn first_diff(a: &[(String, String)], b: &[(String, String)]) -> Option<String> {
    for ((n, x), (_, y)) in a.iter().zip(b.iter()) {
        if x != y {
            let pos = x.bytes().zip(y.bytes()).position(|(p, q)| p != q).unwrap_or(x.len().min(y.len()));
            let s = pos.saturating_sub(30);
            return Some(format!("{n} differs near byte {pos}: …{}… vs …{}…", &x[s..(pos + 40).min(x.len())], &y[s..(pos + 40).min(y.len())]));
        }
    }
    None
}

fn has_non_finite(m: &Module) -> bool {
    fn card(c: &cao_lang::compiler::Card) -> bool {
        if let CardBody::ScalarFloat(f) = &c.body {
            if !f.is_finite() {
                return true;
            }
        }
        c.iter_children().any(card)
    }
    m.functions.iter().any(|(_, f)| f.cards.iter().any(card)) || m.submodules.iter().any(|(_, s)| has_non_finite(s))
}

fn has_empty_function(m: &Module) -> bool {
    m.functions.iter().any(|(n, f)| n != "main" && f.cards.is_empty()) || m.submodules.iter().any(|(_, sm)| has_empty_function(sm))
}

fn viol(what: &str, d: String) -> Verdict {
    Verdict::violation(format!("C11:{what}"), d)
}

#[derive(Clone, Debug)]
enum VS {
    Nil,
    Int(i64),
    Real(f64),
    Str(String),
    Table(Vec<(VS, VS)>),
    /// the same table object as one built earlier (shared, not cyclic)
    Ref(usize),
}

fn gen_vs(rng: &mut Prng, depth: usize) -> VS {
    if depth == 0 || rng.chance(1, 2) {
        return match rng.below(6) {
            0 => VS::Nil,
            5 => VS::Ref(rng.below(1000)),
            1 => VS::Int(*rng.pick(&[0i64, -1, 7, i64::MAX, i64::MIN, 1 << 53])),
            2 => VS::Real(*rng.pick(&[0.5f64, -1e300, 1e-300, 3.0, 0.1, 123456.789, f64::INFINITY, f64::NEG_INFINITY, -0.0])),
            _ => VS::Str(rng.pick(&["", "a", "héllo ✓", "k", "long string with spaces"]).to_string()),
        };
    }
    let n = *rng.pick(&[0usize, 1, 2, 3, 7, 8, 9, 17, 40, 200]);
    let n = if depth < 3 { n.min(9) } else { n };
    let mut entries = Vec::new();
    for i in 0..n {
        let k = match rng.below(3) {
            0 => VS::Int(i as i64),
            1 => VS::Str(format!("key{i}")),
            _ => VS::Int(1000 - i as i64),
        };
        entries.push((k, gen_vs(rng, depth - 1)));
    }
    VS::Table(entries)
}

/// `pool` holds the finished tables with their expanded size (a shared table counts once per reference when the value
/// is written out as a tree); `total` is the expanded size so far - sharing stops before the tree form explodes
fn build_vs(vm: &mut Vm<crate::vmrun::Aux>, v: &VS, pool: &mut Vec<(Value, usize)>, total: &mut usize) -> Value {
    *total += 1;
    match v {
        VS::Ref(n) => {
            let small: Vec<&(Value, usize)> = pool.iter().filter(|(_, sz)| *sz <= 60 && *total + *sz <= 3000).collect();
            if small.is_empty() {
                Value::Nil
            } else {
                let (v, sz) = small[*n % small.len()];
                *total += *sz;
                *v
            }
        }
        VS::Nil => Value::Nil,
        VS::Int(i) => Value::Integer(*i),
        VS::Real(f) => Value::Real(*f),
        VS::Str(s) => Value::Object(vm.init_string(s).unwrap().into_inner()),
        VS::Table(es) => {
            let before = *total;
            let t = vm.init_table().unwrap().into_inner();
            for (k, x) in es {
                let kv = build_vs(vm, k, pool, total);
                let xv = build_vs(vm, x, pool, total);
                unsafe { (*t.as_ptr()).as_table_mut().unwrap().insert(kv, xv).unwrap() };
            }
            pool.push((Value::Object(t), *total - before + 1));
            Value::Object(t)
        }
    }
}

fn many_globals(rng: &mut Prng) -> Module {
    let n = *rng.pick(&[0usize, 1, 2, 3, 4, 7, 8, 9, 15, 16, 17, 31, 32, 33, 64, 100, 300]);
    let mut cards = vec![set("_", nil())];
    for i in 0..n {
        cards.push(setg(&format!("glob{i}"), int(i as i64)));
    }
    if n > 0 {
        cards.push(discard(native("log1", vec![read(format!("glob{}", n - 1))])));
    }
    let mut m = Module::default();
    m.functions.push(("main".into(), Function { arguments: vec![], cards }));
    // many functions => many labels
    for i in 0..*rng.pick(&[0usize, 1, 5, 40, 120]) {
        m.functions.push((format!("fn{i}"), Function { arguments: vec![], cards: vec![un("ret", int(i as i64))] }));
    }
    if rng.chance(1, 12) {
        // thousands of labels and trace entries (every card has one)
        let n = rng.range(2200, 5200);
        let mut cards = vec![set("_", nil())];
        cards.extend((0..n).map(|i| set("_", int(i))));
        m.functions.push(("long_fn".into(), Function { arguments: vec![], cards }));
    }
    m
}

impl Engine for SerdeEngine {
    type Case = Case;
    fn name(&self) -> &'static str {
        "serde"
    }
    fn gen(&mut self, rng: &mut Prng, _tier: Tier) -> Case {
        let (module, source): (Module, &str) = match rng.below(8) {
            0 | 1 => {
                let mut g = ProgGen::new(rng, GenCfg { closures: 20, stdlib: 8, ..GenCfg::core() });
                (g.gen_program(), "prog")
            }
            2 => (crate::gen_closure::gen_closure_scenario(rng).0, "closure-scenario"),
            3 => (crate::gen_closure::gen_gc_scenario(rng).0, "gc-scenario"),
            4 => (crate::e_resolve::gen_tree(rng), "module-tree"),
            5 | 6 => (many_globals(rng), "many-globals-and-labels"),
            _ => {
                // every card kind, optional fields present and absent
                (crate::e_module::gen_module(rng.next_u64(), 2, 3), "all-card-kinds")
            }
        };
        // degenerate shapes that change what the serialised artefacts contain: functions without cards (a trace entry
        // with an empty index path), an empty sub-module, a function that is never called
        let mut module = module;
        if rng.chance(1, 3) {
            let f = (format!("empty_fn{}", rng.below(3)), Function { arguments: if rng.chance(1, 2) { vec![] } else { vec!["a".into()] }, cards: vec![] });
            if rng.chance(1, 2) || module.submodules.is_empty() {
                let pos = rng.below(module.functions.len() + 1);
                module.functions.insert(pos, f);
            } else {
                module.submodules[0].1.functions.push(f);
            }
            if rng.chance(1, 3) {
                module.submodules.push((format!("empty_mod{}", rng.below(3)), Module::default()));
            }
        }
        Case { module, source: source.into(), value_seed: rng.next_u64() }
    }
    fn run(&mut self, case: &Case, obs: &mut Obs) -> Verdict {
        obs.inc(&format!("source:{}", case.source));
        if has_empty_function(&case.module) {
            obs.inc("modules_with_an_empty_function");
        }
        let m = &case.module;
        // ---------- A. source module through JSON and YAML
        let direct = compile(m.clone(), CompileOptions::new());
        if !has_non_finite(m) {
            for fmt in ["json", "yaml"] {
                let back: Result<Module, String> = if fmt == "json" {
                    serde_json::to_string(m).map_err(|e| e.to_string()).and_then(|t| serde_json::from_str(&t).map_err(|e| e.to_string()))
                } else {
                    serde_yaml::to_string(m).map_err(|e| e.to_string()).and_then(|t| serde_yaml::from_str(&t).map_err(|e| e.to_string()))
                };
                let back = match back {
                    Ok(b) => b,
                    Err(e) => {
                        if e.contains("recursion limit") {
                            obs.inc("module_too_deep_for_loader");
                            continue;
                        }
                        return viol(&format!("module:{fmt}:does-not-load"), format!("a module written as {fmt} does not read back: {e}"));
                    }
                };
                obs.inc(&format!("module_roundtrips:{fmt}"));
                let again = compile(back, CompileOptions::new());
                match (&direct, &again) {
                    (Ok(a), Ok(b)) => {
                        if let Some(d) = first_diff(&fingerprint(a), &fingerprint(b)) {
                            return viol(&format!("module:{fmt}:compiles-differently"), format!("after a {fmt} round trip the module compiles to a different program: {d}"));
                        }
                    }
                    (Err(a), Err(b)) => {
                        if format!("{:?}", a.payload) != format!("{:?}", b.payload) {
                            return viol(&format!("module:{fmt}:different-error"), format!("compile error before: {}, after the {fmt} round trip: {}", a.payload, b.payload));
                        }
                    }
                    (a, b) => return viol(&format!("module:{fmt}:compile-outcome"), format!("compiles = {} before, {} after the {fmt} round trip", a.is_ok(), b.is_ok())),
                }
            }
        }
        // ---------- B. compiled program through JSON, CBOR, bincode
        if let Ok(p) = &direct {
            let fp = fingerprint(p);
            obs.max("labels", p.labels.0.len() as u64);
            obs.max("variables", p.variables.ids.len() as u64);
            obs.add(&format!("program_size_class:labels<={}", (p.labels.0.len().max(1)).next_power_of_two()), 1);
            obs.add(&format!("program_size_class:variables<={}", (p.variables.ids.len().max(1)).next_power_of_two()), 1);
            let cfg = VmConfig { max_instr: 100_000, ..VmConfig::default() };
            let reference = {
                let mut vm = new_vm(&cfg, &[]);
                let r = vm.run(p);
                observe(&vm, p, &r)
            };
            for fmt in ["json", "cbor", "bincode"] {
                let back: Result<CaoCompiledProgram, String> = match fmt {
                    "json" => serde_json::to_vec(p).map_err(|e| e.to_string()).and_then(|b| serde_json::from_slice(&b).map_err(|e| e.to_string())),
                    "cbor" => {
                        let mut buf = Vec::new();
                        ciborium::ser::into_writer(p, &mut buf).map_err(|e| e.to_string()).and_then(|_| ciborium::de::from_reader(buf.as_slice()).map_err(|e| e.to_string()))
                    }
                    _ => bincode::serde::encode_to_vec(p, bincode::config::standard())
                        .map_err(|e| e.to_string())
                        .and_then(|b| bincode::serde::decode_from_slice(&b, bincode::config::standard()).map(|x| x.0).map_err(|e| e.to_string())),
                };
                let back = match back {
                    Ok(b) => b,
                    Err(e) => return viol(&format!("program:{fmt}:does-not-load"), format!("a compiled program written as {fmt} does not read back: {e}")),
                };
                obs.inc(&format!("program_roundtrips:{fmt}"));
                if let Some(d) = first_diff(&fp, &fingerprint(&back)) {
                    return viol(&format!("program:{fmt}:differs"), format!("after a {fmt} round trip: {d}"));
                }
                let mut vm = new_vm(&cfg, &[]);
                let r = vm.run(&back);
                let out = observe(&vm, &back, &r);
                if let Some((what, d)) = outcomes_differ(&out, &reference) {
                    return viol(&format!("program:{fmt}:runs-differently:{what}"), format!("the program read back from {fmt}: {d}"));
                }
            }
        }
        // ---------- C. runtime values
        let mut rng = Prng::new(case.value_seed);
        let spec = gen_vs(&mut rng, 4);
        let cfg = VmConfig::default();
        let mut vm1 = new_vm(&cfg, &[]);
        let mut pool = Vec::new();
        let mut total = 0usize;
        let v = build_vs(&mut vm1, &spec, &mut pool, &mut total);
        if pool.len() > 1 {
            obs.inc("values_with_tables");
        }
        let original: DVal = deep(v);
        let owned = match OwnedValue::try_from(v) {
            Ok(o) => o,
            Err(_) => return viol("value:to-owned", "a value made of nil/numbers/strings/tables could not be converted to its owned form".into()),
        };
        fn non_finite(v: &VS) -> bool {
            match v {
                VS::Real(f) => !f.is_finite(),
                VS::Table(es) => es.iter().any(|(k, x)| non_finite(k) || non_finite(x)),
                _ => false,
            }
        }
        let has_non_finite = non_finite(&spec);
        if has_non_finite {
            obs.inc("values_with_non_finite_reals");
        }
        for fmt in ["json", "cbor", "bincode"] {
            if fmt == "json" && has_non_finite {
                // JSON has no notation for infinities
                continue;
            }
            let back: Result<OwnedValue, String> = match fmt {
                "json" => serde_json::to_vec(&owned).map_err(|e| e.to_string()).and_then(|b| serde_json::from_slice(&b).map_err(|e| e.to_string())),
                "cbor" => {
                    let mut buf = Vec::new();
                    ciborium::ser::into_writer(&owned, &mut buf).map_err(|e| e.to_string()).and_then(|_| ciborium::de::from_reader(buf.as_slice()).map_err(|e| e.to_string()))
                }
                _ => bincode::serde::encode_to_vec(&owned, bincode::config::standard())
                    .map_err(|e| e.to_string())
                    .and_then(|b| bincode::serde::decode_from_slice(&b, bincode::config::standard()).map(|x| x.0).map_err(|e| e.to_string())),
            };
            let back = match back {
                Ok(b) => b,
                Err(e) => return viol(&format!("value:{fmt}:does-not-load"), format!("an owned value written as {fmt} does not read back: {e}")),
            };
            let mut vm2 = new_vm(&cfg, &[]);
            let v2 = match vm2.insert_value(&back) {
                Ok(v) => v,
                Err(e) => return viol(&format!("value:{fmt}:insert"), format!("insert_value failed: {e}")),
            };
            let copy = deep(v2);
            if copy != original {
                return viol(&format!("value:{fmt}:differs"), format!("original {} came back as {}", original.short(), copy.short()));
            }
            obs.inc(&format!("value_roundtrips:{fmt}"));
        }
        // ---------- D. insert_value while the collector runs at every allocation (the value is built by the library
        //               itself, nothing of it is reachable from a root until it is returned)
        {
            use cao_lang::verif_hooks::GcPlan;
            let cfg = VmConfig { max_instr: 10_000, suppress_gc: true, memory_limit: Some(64 << 20), stack_size: None };
            let mut vm3 = new_vm(&cfg, &[]);
            {
                let a = vm3.runtime_data.verif_allocator();
                // (a collection costs time linear in the heap: large values get sparser schedules)
                *a.verif.plan.borrow_mut() = if total > 150 {
                    GcPlan::EveryNth((total / 60) as u64 + case.value_seed % 3)
                } else if case.value_seed % 3 == 0 {
                    GcPlan::EveryNth(2)
                } else {
                    GcPlan::Every
                };
                a.verif.quarantine_on.set(true);
            }
            match vm3.insert_value(&owned) {
                Err(e) => return viol("value:insert-under-gc", format!("insert_value failed while collections were forced: {e}")),
                Ok(v3) => {
                    // the host roots the result at once
                    let _ = vm3.stack_push(v3);
                    if let Err(f) = crate::audit::audit(&vm3.runtime_data, true, true) {
                        return Verdict::violation(
                            format!("C11:insert_value:gc:{}:{}", f.invariant, f.holder.split(' ').next().unwrap_or("?")),
                            format!("a collection during Vm::insert_value swept part of the value being built: {}", f.detail),
                        );
                    }
                    obs.add("collections_during_insert_value", vm3.runtime_data.verif.gc_count);
                    obs.inc("insert_value_under_forced_gc");
                }
            }
        }
        obs.nontrivial = true;
        Verdict::Ok
    }
    fn shrink(&self, case: &Case) -> Vec<Case> {
        shrink_module(&case.module).into_iter().map(|m| Case { module: m, ..case.clone() }).collect()
    }
}
