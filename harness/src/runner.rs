//! Generic case loop: generate -> run under monitors -> record.
use crate::prng::{fnv64, mix, Prng};
use serde::{de::DeserializeOwned, Serialize};
use serde_json::{json, Value as J};
use std::cell::RefCell;
use std::collections::{BTreeMap, BTreeSet};
use std::io::{Seek, Write};
use std::panic::{catch_unwind, AssertUnwindSafe};

#[derive(Debug, Clone)]
pub enum Verdict {
    Ok,
    /// an oracle observed an execution refuting the property
    Violation { sig: String, detail: String },
    /// nothing can be said about this case (never counted as coverage)
    Inconclusive { reason: String },
    /// the case is outside the judged domain (unspecified behaviour); counted separately
    Skip { reason: String },
}

impl Verdict {
    pub fn violation(sig: impl Into<String>, detail: impl Into<String>) -> Self {
        Verdict::Violation {
            sig: sig.into(),
            detail: detail.into(),
        }
    }
    pub fn is_violation(&self) -> bool {
        matches!(self, Verdict::Violation { .. })
    }
}

/// Observations made while running one case
#[derive(Default, Debug)]
pub struct Obs {
    pub counters: BTreeMap<String, u64>,
    pub nontrivial: bool,
    /// extra violations found besides the returned verdict (a case may hit several)
    pub extra_violations: Vec<(String, String)>,
}

impl Obs {
    pub fn add(&mut self, k: &str, n: u64) {
        *self.counters.entry(k.to_string()).or_insert(0) += n;
    }
    pub fn inc(&mut self, k: &str) {
        self.add(k, 1);
    }
    pub fn max(&mut self, k: &str, n: u64) {
        let e = self.counters.entry(format!("max:{k}")).or_insert(0);
        if n > *e {
            *e = n;
        }
    }
}

#[derive(Debug, Clone, Copy, PartialEq, Eq)]
pub enum Tier {
    Quick,
    Thorough,
}

pub trait Engine {
    type Case: Serialize + DeserializeOwned + Clone;
    fn name(&self) -> &'static str;
    fn gen(&mut self, rng: &mut Prng, tier: Tier) -> Self::Case;
    fn run(&mut self, case: &Self::Case, obs: &mut Obs) -> Verdict;
    /// smaller variants of a failing case, most aggressive first
    fn shrink(&self, _case: &Self::Case) -> Vec<Self::Case> {
        Vec::new()
    }
    /// what is written into the evidence file as a sample of this case (default: the case itself)
    fn describe(&self, case: &Self::Case) -> J {
        serde_json::to_value(case).unwrap_or(J::Null)
    }
    /// called once before the loop (self checks of the harness' own tables etc.)
    fn self_check(&mut self, _obs: &mut Obs) -> Result<(), String> {
        Ok(())
    }
}

#[derive(Debug, Clone)]
pub struct Opts {
    pub seed: u64,
    pub shard: u64,
    pub nshards: u64,
    pub cases: u64,
    pub tier: Tier,
    pub out: Option<String>,
    pub replay: Option<String>,
    pub only_case: Option<u64>,
    pub dump_case: bool,
    pub start_at: u64,
    pub minimise: bool,
    pub skip: Vec<u64>,
    pub extra: BTreeMap<String, String>,
}

impl Opts {
    pub fn from_args(args: &[String]) -> Self {
        let mut o = Opts {
            seed: 1,
            shard: 0,
            nshards: 1,
            cases: 100,
            tier: Tier::Quick,
            out: None,
            replay: None,
            only_case: None,
            dump_case: false,
            start_at: 0,
            minimise: true,
            skip: Vec::new(),
            extra: BTreeMap::new(),
        };
        let mut i = 0;
        while i < args.len() {
            let a = args[i].as_str();
            let mut val = || {
                i += 1;
                args.get(i).cloned().unwrap_or_default()
            };
            match a {
                "--seed" => o.seed = val().parse().unwrap_or(1),
                "--shard" => o.shard = val().parse().unwrap_or(0),
                "--nshards" => o.nshards = val().parse().unwrap_or(1),
                "--cases" => o.cases = val().parse().unwrap_or(100),
                "--tier" => {
                    o.tier = if val() == "thorough" {
                        Tier::Thorough
                    } else {
                        Tier::Quick
                    }
                }
                "--out" => o.out = Some(val()),
                "--replay" => o.replay = Some(val()),
                "--only-case" => o.only_case = val().parse().ok(),
                "--dump-case" => o.dump_case = true,
                "--start-at" => o.start_at = val().parse().unwrap_or(0),
                "--no-minimise" => o.minimise = false,
                "--skip" => {
                    o.skip = val()
                        .split(',')
                        .filter_map(|x| x.parse().ok())
                        .collect()
                }
                _ => {
                    if let Some(k) = a.strip_prefix("--x-") {
                        let v = val();
                        o.extra.insert(k.to_string(), v);
                    }
                }
            }
            i += 1;
        }
        o
    }
    pub fn x(&self, k: &str) -> Option<&str> {
        self.extra.get(k).map(|s| s.as_str())
    }
    pub fn x_u64(&self, k: &str, d: u64) -> u64 {
        self.x(k).and_then(|s| s.parse().ok()).unwrap_or(d)
    }
}

thread_local! {
    static LAST_PANIC: RefCell<Option<(String, String)>> = const { RefCell::new(None) };
    static INFLIGHT: RefCell<Option<std::fs::File>> = const { RefCell::new(None) };
}

pub fn install_panic_hook() {
    std::panic::set_hook(Box::new(|info| {
        let loc = info
            .location()
            .map(|l| format!("{}:{}", l.file(), l.line()))
            .unwrap_or_else(|| "?".into());
        let msg = if let Some(s) = info.payload().downcast_ref::<&str>() {
            s.to_string()
        } else if let Some(s) = info.payload().downcast_ref::<String>() {
            s.clone()
        } else {
            "<non-string panic>".to_string()
        };
        if std::env::var("CAOVERIF_VERBOSE_PANIC").is_ok() {
            eprintln!("PANIC at {loc}: {msg}\n{}", std::backtrace::Backtrace::force_capture());
        }
        LAST_PANIC.with(|p| *p.borrow_mut() = Some((loc, msg)));
    }));
}

pub fn take_last_panic() -> Option<(String, String)> {
    LAST_PANIC.with(|p| p.borrow_mut().take())
}

/// Append a note to the in-flight file (survives a kill; read by the driver)
pub fn note(s: &str) {
    INFLIGHT.with(|f| {
        if let Some(f) = f.borrow_mut().as_mut() {
            let _ = writeln!(f, "{s}");
            let _ = f.flush();
        }
    });
}

fn set_inflight(idx: u64) {
    INFLIGHT.with(|f| {
        if let Some(f) = f.borrow_mut().as_mut() {
            let _ = f.set_len(0);
            let _ = f.seek(std::io::SeekFrom::Start(0));
            let _ = writeln!(f, "CASE {idx}");
            let _ = f.flush();
        }
    });
}

/// strip digits-noise from panic messages so that signatures are stable
pub fn normalise_msg(m: &str) -> String {
    let mut out = String::new();
    let mut last_hash = false;
    for c in m.chars().take(160) {
        if c.is_ascii_digit() {
            if !last_hash {
                out.push('#');
            }
            last_hash = true;
        } else {
            last_hash = false;
            out.push(if c == '\n' { ' ' } else { c });
        }
    }
    out
}

pub fn short_loc(loc: &str) -> String {
    // keep path from cao-lang/src or harness/src on
    if let Some(i) = loc.find("cao-lang/src/") {
        return loc[i + "cao-lang/".len()..].to_string();
    }
    if let Some(i) = loc.find("harness/src/") {
        return format!("HARNESS:{}", &loc[i..]);
    }
    if let Some(i) = loc.find("/library/") {
        return format!("std:{}", &loc[i + 1..]);
    }
    loc.to_string()
}

/// Run one case with panic isolation. Returns verdict.
pub fn run_isolated<E: Engine>(e: &mut E, case: &E::Case, obs: &mut Obs) -> Verdict {
    let _ = take_last_panic();
    let r = catch_unwind(AssertUnwindSafe(|| e.run(case, obs)));
    match r {
        Ok(v) => v,
        Err(_) => {
            let (loc, msg) = take_last_panic().unwrap_or(("?".into(), "?".into()));
            let sl = short_loc(&loc);
            if sl.starts_with("HARNESS:") {
                Verdict::Inconclusive {
                    reason: format!("harness_panic@{sl}: {msg}"),
                }
            } else {
                Verdict::violation(
                    format!("panic@{}[{}]", strip_line(&sl), normalise_msg(&msg)),
                    format!("panic at {loc}: {msg}"),
                )
            }
        }
    }
}

fn strip_line(l: &str) -> String {
    match l.rfind(':') {
        Some(i) if l[i + 1..].chars().all(|c| c.is_ascii_digit()) => l[..i].to_string(),
        _ => l.to_string(),
    }
}

pub fn sig_class(sig: &str) -> String {
    sig.to_string()
}

fn minimise<E: Engine>(e: &mut E, case: E::Case, sig: &str, budget: usize) -> (E::Case, usize) {
    let mut cur = case;
    let mut runs = 0;
    // minimising is a convenience: bounded in wall time as well (large cases make every candidate slow), and the
    // in-flight file keeps moving so that the driver's stall watchdog does not take a long minimisation for a hang
    let t0 = std::time::Instant::now();
    let mut last_touch = t0;
    'outer: loop {
        let cands = e.shrink(&cur);
        for c in cands {
            if runs >= budget || t0.elapsed().as_secs() >= 20 {
                break 'outer;
            }
            if last_touch.elapsed().as_secs() >= 2 {
                note("minimising");
                last_touch = std::time::Instant::now();
            }
            runs += 1;
            let mut o = Obs::default();
            if let Verdict::Violation { sig: s2, .. } = run_isolated(e, &c, &mut o) {
                if s2 == sig {
                    cur = c;
                    continue 'outer;
                }
            }
        }
        break;
    }
    (cur, runs)
}

pub fn truncate_json(v: &J, max: usize) -> J {
    let s = v.to_string();
    if s.len() <= max {
        v.clone()
    } else {
        let mut cut = max;
        while !s.is_char_boundary(cut) {
            cut -= 1;
        }
        J::String(format!("{}…(truncated, {} bytes)", &s[..cut], s.len()))
    }
}

pub fn run_engine<E: Engine>(e: &mut E, opts: &Opts) -> i32 {
    install_panic_hook();
    let name = e.name();
    let ehash = fnv64(name.as_bytes());

    if let Some(path) = &opts.replay {
        let txt = std::fs::read_to_string(path).expect("read replay file");
        let v: J = serde_json::from_str(&txt).expect("parse replay file");
        let case: E::Case =
            serde_json::from_value(v.get("case").cloned().unwrap_or(v.clone())).expect("case");
        let mut obs = Obs::default();
        let verdict = run_isolated(e, &case, &mut obs);
        println!("REPLAY engine={name} verdict={verdict:?}");
        for (s, d) in &obs.extra_violations {
            println!("REPLAY extra violation sig={s} detail={d}");
        }
        return if verdict.is_violation() || !obs.extra_violations.is_empty() {
            1
        } else {
            0
        };
    }

    if let Some(out) = &opts.out {
        let f = std::fs::OpenOptions::new()
            .create(true)
            .write(true)
            .truncate(true)
            .open(format!("{out}.inflight"))
            .ok();
        INFLIGHT.with(|i| *i.borrow_mut() = f);
    }

    let t0 = std::time::Instant::now();
    let mut total = Obs::default();
    let mut self_check_err = None;
    if let Err(err) = e.self_check(&mut total) {
        self_check_err = Some(err);
    }
    let mut evaluations = 0u64;
    let mut hashes: BTreeSet<u64> = BTreeSet::new();
    let mut nontrivial_hashes: BTreeSet<u64> = BTreeSet::new();
    let mut samples: Vec<J> = Vec::new();
    let mut violations: Vec<J> = Vec::new();
    let mut viol_by_sig: BTreeMap<String, u64> = BTreeMap::new();
    let mut inconclusive: BTreeMap<String, u64> = BTreeMap::new();
    let mut skipped: BTreeMap<String, u64> = BTreeMap::new();
    let mut last_idx = 0u64;
    let mut last_ckpt = std::time::Instant::now();
    macro_rules! make_result {
        ($done:expr) => {
            json!({
                "engine": name,
                "seed": opts.seed,
                "shard": opts.shard,
                "nshards": opts.nshards,
                "evaluations": evaluations,
                "hashes": hashes.iter().map(|h| format!("{h:016x}")).collect::<Vec<_>>().join(""),
                "nontrivial_hashes": nontrivial_hashes.iter().map(|h| format!("{h:016x}")).collect::<Vec<_>>().join(""),
                "counters": total.counters,
                "samples": samples,
                "violations": violations,
                "violations_by_sig": viol_by_sig,
                "inconclusive": inconclusive,
                "skipped": skipped,
                "self_check_error": self_check_err,
                "last_idx": last_idx,
                "wall_s": t0.elapsed().as_secs_f64(),
                "done": $done,
            })
        };
    }

    let idxs: Vec<u64> = match opts.only_case {
        Some(i) => vec![i],
        None => (0..opts.cases)
            .map(|k| opts.shard + k * opts.nshards)
            .filter(|i| *i >= opts.start_at && !opts.skip.contains(i))
            .collect(),
    };

    for idx in idxs {
        last_idx = idx;
        set_inflight(idx);
        let mut rng = Prng::new(mix(opts.seed, ehash, idx));
        let case = e.gen(&mut rng, opts.tier);
        let cj = serde_json::to_value(&case).unwrap_or(J::Null);
        if opts.dump_case {
            println!("{}", json!({"engine": name, "case_idx": idx, "case": cj}));
            if opts.only_case.is_some() {
                return 0;
            }
        }
        let h = fnv64(cj.to_string().as_bytes());
        let mut obs = Obs::default();
        let verdict = run_isolated(e, &case, &mut obs);
        evaluations += 1;
        hashes.insert(h);
        for (k, v) in &obs.counters {
            if let Some(kk) = k.strip_prefix("max:") {
                total.max(kk, *v);
            } else {
                total.add(k, *v);
            }
        }
        let mut viols: Vec<(String, String)> = obs.extra_violations.clone();
        match &verdict {
            Verdict::Ok => {
                if obs.nontrivial {
                    nontrivial_hashes.insert(h);
                    if samples.len() < 3 {
                        samples.push(truncate_json(&e.describe(&case), 1800));
                    }
                }
            }
            Verdict::Violation { sig, detail } => viols.insert(0, (sig.clone(), detail.clone())),
            Verdict::Inconclusive { reason } => {
                *inconclusive.entry(normalise_msg(reason)).or_insert(0) += 1;
            }
            Verdict::Skip { reason } => {
                *skipped.entry(reason.clone()).or_insert(0) += 1;
            }
        }
        for (sig, detail) in viols {
            let n = viol_by_sig.entry(sig.clone()).or_insert(0);
            *n += 1;
            if *n <= 2 && violations.len() < 40 {
                let (mc, runs) = if opts.minimise && *n == 1 {
                    minimise(e, case.clone(), &sig, 400)
                } else {
                    (case.clone(), 0)
                };
                let mut detail = detail;
                if runs > 0 {
                    let mut o = Obs::default();
                    if let Verdict::Violation { sig: s2, detail: d2 } = run_isolated(e, &mc, &mut o) {
                        if s2 == sig {
                            detail = d2;
                        }
                    }
                }
                violations.push(json!({
                    "sig": sig,
                    "detail": detail,
                    "case_idx": idx,
                    "seed": opts.seed,
                    "minimise_runs": runs,
                    "case": serde_json::to_value(&mc).unwrap_or(J::Null),
                }));
            }
        }
        if let Some(out) = &opts.out {
            if last_ckpt.elapsed().as_secs_f64() > 3.0 {
                last_ckpt = std::time::Instant::now();
                let r = make_result!(false);
                let tmp = format!("{out}.tmp");
                if std::fs::write(&tmp, r.to_string()).is_ok() {
                    let _ = std::fs::rename(&tmp, out);
                }
            }
        }
    }

    let result = make_result!(true);
    match &opts.out {
        Some(out) => {
            std::fs::write(out, result.to_string()).expect("write result");
        }
        None => println!("{}", serde_json::to_string_pretty(&result).unwrap()),
    }
    0
}
