//! C02: collections injected at allocation points. Self-differential against the no-collection run,
//! heap audit after every instruction during which a collection ran, released-memory write detection.
use crate::audit::{audit, AuditFailure};
use crate::dval::DVal;
use crate::e_prog::dval_eq;
use crate::gen::{GenCfg, ProgGen};
use crate::prng::Prng;
use crate::runner::{Engine, Obs, Tier, Verdict};
use crate::shrink::shrink_module;
use crate::vmrun::{compile_module, new_vm, observe, VmConfig, VmOutcome};
use cao_lang::compiler::Module;
use cao_lang::prelude::*;
use cao_lang::verif_hooks::{verif_instruction_table, GcPlan};
use serde::{Deserialize, Serialize};
use std::cell::RefCell;
use std::rc::Rc;

#[derive(Clone, Serialize, Deserialize)]
pub struct Case {
    pub module: Module,
    pub inputs: Vec<DVal>,
    pub scenario: String,
    /// None = the full schedule set; Some = only this schedule (replay / minimiser)
    pub only: Option<Sched>,
    pub schedule_seed: u64,
}

#[derive(Clone, Debug, Serialize, Deserialize, PartialEq)]
pub enum Sched {
    Every,
    EveryNth(u64),
    At(Vec<u64>),
}

pub struct GcEngine {
    /// no quarantine, no audit: the sanitizer is the oracle (ASan / memcheck / Miri builds)
    pub sanitizer_mode: bool,
    pub max_singles: usize,
    /// where the programs come from: "mixed" (default), "stdlib" (the C09 generator), "host" (host calls with temporaries)
    pub source: String,
    opnames: Vec<String>,
}

impl GcEngine {
    /// the property on whose behalf the engine runs (the library and host-call workloads belong to C09 / C18)
    fn pid(&self) -> &'static str {
        match self.source.as_str() {
            "stdlib" => "C09:gc",
            "host" => "C18:gc",
            "closures" => "C06:gc",
            _ => "C02",
        }
    }
    pub fn new(sanitizer_mode: bool, max_singles: usize, source: &str) -> Self {
        let mut opnames = vec![String::new(); 256];
        for (op, name, _) in verif_instruction_table() {
            opnames[op as usize] = name;
        }
        GcEngine { sanitizer_mode, max_singles, source: source.to_string(), opnames }
    }
}

struct RunResult {
    outcome: VmOutcome,
    allocations: u64,
    collections: u64,
    gc_by_opcode: Vec<u64>,
    audit_failure: Option<(AuditFailure, u8)>,
    audits: u64,
}

fn to_plan(s: &Sched) -> GcPlan {
    match s {
        Sched::Every => GcPlan::Every,
        Sched::EveryNth(n) => GcPlan::EveryNth(*n),
        Sched::At(v) => GcPlan::AtIndices(v.clone()),
    }
}

fn run_with(program: &CaoCompiledProgram, inputs: &[DVal], sched: Option<&Sched>, sanitizer_mode: bool) -> RunResult {
    let cfg = VmConfig { max_instr: 150_000, suppress_gc: true, memory_limit: Some(64 << 20), stack_size: None };
    let mut vm = new_vm(&cfg, inputs);
    let failure: Rc<RefCell<Option<(AuditFailure, u8)>>> = Rc::new(RefCell::new(None));
    let audits = Rc::new(RefCell::new(0u64));
    if let Some(s) = sched {
        let a = vm.runtime_data.verif_allocator();
        *a.verif.plan.borrow_mut() = to_plan(s);
        if !sanitizer_mode {
            a.verif.quarantine_on.set(true);
            let f2 = failure.clone();
            let n2 = audits.clone();
            vm.runtime_data.verif.on_dispatch = Some(Box::new(move |rt, _next_op| {
                if rt.verif.gc_since_last_dispatch && f2.borrow().is_none() {
                    *n2.borrow_mut() += 1;
                    let n = *n2.borrow();
                    // re-hashing every released block is linear in the garbage produced so far: do it rarely
                    let check_released = n % 64 == 0 && rt.verif_allocator().verif.quarantine.borrow().len() < 5000;
                    if let Err(e) = audit(rt, check_released, true) {
                        *f2.borrow_mut() = Some((e, rt.verif.current_opcode));
                        // the heap is known to be inconsistent: do not execute on it any further
                        rt.verif.abort_requested.set(true);
                    }
                }
            }));
        }
    }
    let r = vm.run(program);
    let outcome = observe(&vm, program, &r);
    if sched.is_some() && !sanitizer_mode && failure.borrow().is_none() {
        *audits.borrow_mut() += 1;
        if let Err(e) = audit(&vm.runtime_data, true, r.is_ok()) {
            *failure.borrow_mut() = Some((e, 255));
        }
    }
    vm.runtime_data.verif.on_dispatch = None;
    let res = RunResult {
        outcome,
        allocations: vm.runtime_data.verif_allocator().verif.alloc_index.get(),
        collections: vm.runtime_data.verif.gc_count,
        gc_by_opcode: vm.runtime_data.verif.gc_by_opcode.clone(),
        audit_failure: failure.borrow().clone(),
        audits: *audits.borrow(),
    };
    res
}

pub fn outcomes_differ(a: &VmOutcome, b: &VmOutcome) -> Option<(String, String)> {
    if a.result != b.result {
        return Some((format!("result:{}->{}", b.result, a.result), format!("the run ends with {} instead of {}", a.result, b.result)));
    }
    if a.log.len() != b.log.len() {
        return Some(("host-calls:count".into(), format!("{} host calls instead of {}", a.log.len(), b.log.len())));
    }
    for (i, (x, y)) in a.log.iter().zip(b.log.iter()).enumerate() {
        if x.0 != y.0 || x.1.len() != y.1.len() || !x.1.iter().zip(y.1.iter()).all(|(p, q)| dval_eq(p, q)) {
            return Some((
                "host-calls:args".into(),
                format!(
                    "host call #{i}: {}({}) instead of {}({})",
                    x.0,
                    x.1.iter().map(|d| d.short()).collect::<Vec<_>>().join(", "),
                    y.0,
                    y.1.iter().map(|d| d.short()).collect::<Vec<_>>().join(", ")
                ),
            ));
        }
    }
    for ((n1, v1), (_, v2)) in a.globals.iter().zip(b.globals.iter()) {
        if !dval_eq(v1, v2) {
            return Some(("global".into(), format!("global {n1} is {} instead of {}", v1.short(), v2.short())));
        }
    }
    None
}

impl Engine for GcEngine {
    type Case = Case;
    fn name(&self) -> &'static str {
        "gc"
    }
    fn describe(&self, case: &Self::Case) -> serde_json::Value {
        let mut v = serde_json::to_value(case).unwrap_or(serde_json::Value::Null);
        if let Some(o) = v.as_object_mut() {
            o.insert("module".into(), serde_json::Value::String(crate::pp::module(&case.module, "")));
        }
        v
    }

    fn gen(&mut self, rng: &mut Prng, _tier: Tier) -> Case {
        let inputs = crate::e_prog::gen_inputs(rng);
        let schedule_seed = rng.next_u64();
        let pick = match self.source.as_str() {
            "stdlib" => 100,
            "host" => 101,
            "closures" => 102,
            _ => rng.below(11),
        };
        let (module, scenario) = match pick {
            100 => {
                let (m, s) = crate::e_stdlib::gen_std_program(rng);
                (m, format!("stdlib:{s}"))
            }
            101 | 10 => crate::gen_closure::gen_host_gc_scenario(rng),
            102 => {
                if rng.chance(2, 3) {
                    crate::gen_closure::gen_closure_scenario(rng)
                } else {
                    let mut g = ProgGen::new(rng, GenCfg { int_extremes: false, ..GenCfg::closures() });
                    (g.gen_program(), "random-closures".to_string())
                }
            }
            0 => crate::gen_closure::gen_closure_scenario(rng),
            1 | 4 | 5 => crate::gen_closure::gen_gc_scenario(rng),
            2 | 3 => {
                let mut g = ProgGen::new(rng, GenCfg { closures: 10, tables: 20, stdlib: 25, reentry: 4, ill_typed: 2, int_extremes: false, ..GenCfg::core() });
                (g.gen_program(), "random+stdlib".to_string())
            }
            _ => {
                let mut g = ProgGen::new(rng, GenCfg { closures: 25, tables: 25, stdlib: 6, reentry: 5, ill_typed: 2, int_extremes: false, ..GenCfg::core() });
                (g.gen_program(), "random".to_string())
            }
        };
        Case { module, inputs, scenario, only: None, schedule_seed }
    }

    fn run(&mut self, case: &Case, obs: &mut Obs) -> Verdict {
        if std::env::var("CAOVERIF_PP").is_ok() {
            eprintln!("{}", crate::pp::module(&case.module, ""));
        }
        let program = match compile_module(&case.module) {
            Ok(p) => p,
            Err(_) => return Verdict::Skip { reason: "does not compile".into() },
        };
        let reference = run_with(&program, &case.inputs, None, self.sanitizer_mode);
        let a = reference.allocations;
        obs.inc(&format!("scenario:{}", case.scenario));
        if a == 0 {
            return Verdict::Skip { reason: "program allocates nothing".into() };
        }
        if reference.outcome.result == "Timeout" {
            return Verdict::Skip { reason: "reference run timed out".into() };
        }
        if a > 20_000 {
            return Verdict::Skip { reason: "more than 20000 allocation points (audit cost is quadratic)".into() };
        }
        obs.add("allocation_points", a);
        let scheds: Vec<Sched> = match &case.only {
            Some(s) => vec![s.clone()],
            None => {
                let mut v = vec![Sched::Every, Sched::EveryNth(2), Sched::EveryNth(3), Sched::EveryNth(5)];
                let mut rng = Prng::new(case.schedule_seed);
                if a > 1500 {
                    // large programs: the dense schedules once, a few sparse ones
                    v.truncate(2);
                    for _ in 0..8 {
                        v.push(Sched::At(vec![rng.next_u64() % a]));
                    }
                    obs.inc("large_programs_with_reduced_schedules");
                } else if (a as usize) <= self.max_singles {
                    v.extend((0..a).map(|i| Sched::At(vec![i])));
                    obs.inc("programs_with_exhaustive_single_index_schedules");
                } else {
                    for _ in 0..self.max_singles {
                        v.push(Sched::At(vec![rng.next_u64() % a]));
                    }
                }
                for _ in 0..(if self.sanitizer_mode { 4 } else { 12 }) {
                    let k = 1 + rng.below(6);
                    let mut idx: Vec<u64> = (0..k).map(|_| rng.next_u64() % a).collect();
                    idx.sort();
                    idx.dedup();
                    v.push(Sched::At(idx));
                }
                v
            }
        };
        for s in scheds.iter() {
            let r = run_with(&program, &case.inputs, Some(s), self.sanitizer_mode);
            obs.inc("scheduled_runs");
            obs.add("collections", r.collections);
            obs.add("audits", r.audits);
            if r.collections > 0 {
                obs.inc("scheduled_runs_with_collection");
            }
            for (op, n) in r.gc_by_opcode.iter().enumerate() {
                if *n > 0 {
                    obs.add(&format!("gc_during:{}", self.opnames.get(op).cloned().unwrap_or_default()), *n);
                }
            }
            if let Some((f, op)) = r.audit_failure {
                let during = if op == 255 { "end-of-run".to_string() } else { self.opnames.get(op as usize).cloned().unwrap_or_default() };
                return Verdict::violation(
                    format!("{}:audit:{}:{}:during={}", self.pid(), f.invariant, f.holder, during),
                    format!("schedule {s:?}: after a collection during {during}: {} [run result {}, reference {}]", f.detail, r.outcome.result, reference.outcome.result),
                );
            }
            // fewer collections => more memory, so OutOfMemory is not compared across schedules
            if r.outcome.result.contains("OutOfMemory") || reference.outcome.result.contains("OutOfMemory") {
                obs.inc("not_compared:OutOfMemory");
                continue;
            }
            if let Some((what, detail)) = outcomes_differ(&r.outcome, &reference.outcome) {
                return Verdict::violation(format!("{}:outcome-differs:{what}", self.pid()), format!("schedule {s:?}: {detail} (reference = run without collections)"));
            }
        }
        if a >= 5 {
            obs.nontrivial = true;
        }
        Verdict::Ok
    }

    fn shrink(&self, case: &Case) -> Vec<Case> {
        shrink_module(&case.module).into_iter().map(|m| Case { module: m, ..case.clone() }).collect()
    }
}
