//! Reference semantics of the card language: an environment based tree-walking interpreter over `Module`.
//! Written from the property statements and the CardBody doc comments (DESIGN.md, Appendix A).
//! Shares no code with the compiler or the VM and never looks at bytecode, stack slots or labels.
use crate::dval::{real_bits, DVal};
use cao_lang::compiler::{Card, CardBody, Function, Module};
use std::cell::RefCell;
use std::collections::HashMap;
use std::rc::Rc;

pub type Cell = Rc<RefCell<RV>>;

#[derive(Clone)]
pub enum RV {
    Nil,
    Int(i64),
    Real(f64),
    Str(Rc<String>),
    Table(Rc<RefCell<RTable>>),
    /// index into Interp::funcs
    Func(usize),
    Native(Rc<String>),
    Closure(Rc<RClosure>),
}

#[derive(Default)]
pub struct RTable {
    pub entries: Vec<(RV, RV)>,
}

pub struct RClosure {
    pub func: Function,
    pub env: Vec<(String, Cell)>,
    pub module_path: Rc<Vec<String>>,
    /// where the closure card is: (module path, function index in module, sub indices)
    pub origin: Loc,
}

#[derive(Clone, Debug, PartialEq)]
pub struct Loc {
    pub module: Vec<String>,
    pub function: usize,
    pub indices: Vec<u32>,
}

pub enum FBody {
    Script(Function),
    /// standard library function implemented by the specification
    Std(&'static str),
}

pub struct FInfo {
    pub full_name: String,
    pub module_path: Rc<Vec<String>>,
    pub index_in_module: usize,
    pub arity: usize,
    pub params: Vec<String>,
    pub body: FBody,
}

#[derive(Clone, Debug)]
pub enum NativeSpec {
    /// records its arguments, returns nil
    Log(usize),
    /// returns its single argument
    Id,
    /// returns the i-th host input
    Input(usize),
    /// (f, args...) calls f with the remaining arguments (pushed in order) and returns its result
    Apply(usize),
    /// always fails with InvalidArgument
    Fail,
    /// returns a new table {0: a, 1: b}
    Pair,
    /// table of the n arguments under the keys 0..n-1
    Wrap(usize),
    /// calls the first argument with the second one, returns the table [result, second argument]
    Keep,
    /// calls the first argument with the second one; a failure of the callee is swallowed (nil)
    Try,
    /// calls the first argument without arguments and then calls its result with the second argument
    Chain2,
    /// returns the concatenation of the textual forms (allocates a string)
    Concat,
}

pub enum Stop {
    Error { kind: String, at: Loc, chain: Vec<Loc> },
    Return(RV),
    Abort,
    Fuel,
    Unspecified(String),
}

type R<T> = Result<T, Stop>;

struct Act {
    scopes: Vec<Vec<(String, Cell)>>,
    captured: Rc<Vec<(String, Cell)>>,
    module_path: Rc<Vec<String>>,
}

pub struct Outcome {
    /// "Ok" or the error kind
    pub result: String,
    pub error_at: Option<Loc>,
    pub error_chain: Vec<Loc>,
    pub globals: Vec<(String, DVal)>,
    pub log: Vec<(String, Vec<DVal>)>,
    pub steps: u64,
    pub max_depth: usize,
    pub overflow_seen: bool,
    pub leftovers: u64,
    pub cards_run: HashMap<&'static str, u64>,
    pub features: HashMap<&'static str, u64>,
    pub inconclusive: Option<String>,
    pub unspecified: Option<String>,
}

pub struct Interp<'a> {
    pub root: &'a Module,
    pub funcs: Vec<FInfo>,
    pub by_name: HashMap<String, usize>,
    pub globals: Vec<(String, RV)>,
    pub log: Vec<(String, Vec<DVal>)>,
    pub natives: HashMap<String, NativeSpec>,
    pub inputs: Vec<DVal>,
    pub fuel: u64,
    pub steps: u64,
    pub depth: usize,
    pub max_depth: usize,
    pub depth_limit: usize,
    pub overflow_seen: bool,
    pub leftovers: u64,
    pub cards_run: HashMap<&'static str, u64>,
    pub features: HashMap<&'static str, u64>,
    chain: Vec<Loc>,
    imports: HashMap<Vec<String>, Vec<String>>,
}

const STD_FUNCS: [(&str, &[&str]); 11] = [
    ("to_array", &["iterable"]),
    ("filter", &["iterable", "callback"]),
    ("any", &["iterable", "callback"]),
    ("map", &["iterable", "callback"]),
    ("min", &["iterable"]),
    ("max", &["iterable"]),
    ("min_by_key", &["iterable", "key_function"]),
    ("max_by_key", &["iterable", "key_function"]),
    ("sorted_by_key", &["iterable", "key_function"]),
    ("sorted", &["iterable"]),
    ("row_to_value", &["_key", "val"]),
];

fn collect_functions(m: &Module, path: &mut Vec<String>, out: &mut Vec<FInfo>, imports: &mut HashMap<Vec<String>, Vec<String>>) {
    imports.insert(path.clone(), m.imports.clone());
    let mp = Rc::new(path.clone());
    for (i, (name, f)) in m.functions.iter().enumerate() {
        let mut full = path.join(".");
        if !full.is_empty() {
            full.push('.');
        }
        full.push_str(name);
        out.push(FInfo {
            full_name: full,
            module_path: mp.clone(),
            index_in_module: i,
            arity: f.arguments.len(),
            params: f.arguments.clone(),
            body: FBody::Script(f.clone()),
        });
    }
    for (name, sm) in m.submodules.iter() {
        path.push(name.clone());
        collect_functions(sm, path, out, imports);
        path.pop();
    }
}

pub fn card_kind(c: &Card) -> &'static str {
    use CardBody::*;
    match &c.body {
        Add(_) => "Add",
        Sub(_) => "Sub",
        Mul(_) => "Mul",
        Div(_) => "Div",
        Less(_) => "Less",
        LessOrEq(_) => "LessOrEq",
        Equals(_) => "Equals",
        NotEquals(_) => "NotEquals",
        And(_) => "And",
        Or(_) => "Or",
        Xor(_) => "Xor",
        Not(_) => "Not",
        Return(_) => "Return",
        ScalarNil => "ScalarNil",
        CreateTable => "CreateTable",
        Abort => "Abort",
        Len(_) => "Len",
        SetProperty(_) => "SetProperty",
        GetProperty(_) => "GetProperty",
        ScalarInt(_) => "ScalarInt",
        ScalarFloat(_) => "ScalarFloat",
        StringLiteral(_) => "StringLiteral",
        CallNative(_) => "CallNative",
        IfTrue(_) => "IfTrue",
        IfFalse(_) => "IfFalse",
        IfElse(_) => "IfElse",
        Call(_) => "Call",
        Function(_) => "Function",
        NativeFunction(_) => "NativeFunction",
        SetGlobalVar(_) => "SetGlobalVar",
        SetVar(_) => "SetVar",
        ReadVar(_) => "ReadVar",
        Repeat(_) => "Repeat",
        While(_) => "While",
        ForEach(_) => "ForEach",
        CompositeCard(_) => "CompositeCard",
        DynamicCall(_) => "DynamicCall",
        Get(_) => "Get",
        AppendTable(_) => "AppendTable",
        PopTable(_) => "PopTable",
        Array(_) => "Array",
        Closure(_) => "Closure",
        Comment(_) => "Comment",
    }
}

impl RV {
    pub fn str(s: &str) -> RV {
        RV::Str(Rc::new(s.to_string()))
    }
    pub fn new_table() -> RV {
        RV::Table(Rc::new(RefCell::new(RTable::default())))
    }
    pub fn truthy(&self) -> bool {
        match self {
            RV::Nil => false,
            RV::Int(i) => *i != 0,
            RV::Real(r) => *r != 0.0,
            RV::Str(s) => !s.is_empty(),
            RV::Table(t) => !t.borrow().entries.is_empty(),
            RV::Func(_) | RV::Native(_) | RV::Closure(_) => true,
        }
    }
    /// length used by the numeric coercion of strings and tables
    fn coercion_len(&self) -> i64 {
        match self {
            RV::Str(s) => s.len() as i64,
            RV::Table(t) => t.borrow().entries.len() as i64,
            _ => 0,
        }
    }
    pub fn is_num(&self) -> bool {
        matches!(self, RV::Int(_) | RV::Real(_))
    }
    pub fn is_obj(&self) -> bool {
        matches!(self, RV::Str(_) | RV::Table(_) | RV::Func(_) | RV::Native(_) | RV::Closure(_))
    }
    pub fn kind(&self) -> &'static str {
        match self {
            RV::Nil => "nil",
            RV::Int(_) => "int",
            RV::Real(_) => "real",
            RV::Str(_) => "str",
            RV::Table(_) => "table",
            RV::Func(_) => "func",
            RV::Native(_) => "native",
            RV::Closure(_) => "closure",
        }
    }
}

/// Equality without coercion; strings and tables by content (tables order sensitive).
pub fn rv_eq(a: &RV, b: &RV, depth: usize) -> bool {
    if depth > 64 {
        return false;
    }
    match (a, b) {
        (RV::Nil, RV::Nil) => true,
        (RV::Int(x), RV::Int(y)) => x == y,
        (RV::Real(x), RV::Real(y)) => x == y,
        (RV::Str(x), RV::Str(y)) => x == y,
        (RV::Table(x), RV::Table(y)) => {
            let (x, y) = (x.borrow(), y.borrow());
            x.entries.len() == y.entries.len()
                && x.entries.iter().zip(y.entries.iter()).all(|((k1, v1), (k2, v2))| rv_eq(k1, k2, depth + 1) && rv_eq(v1, v2, depth + 1))
        }
        _ => false,
    }
}

#[derive(Debug, Clone, Copy, PartialEq)]
pub enum Ord3 {
    Less,
    Equal,
    Greater,
    Unordered,
}

/// both operands after the language's coercion: Some((a,b)) as reals / ints, None if no numeric reading exists
enum Coerced {
    Reals(f64, f64),
    Ints(i64, i64),
    None,
}

fn coerce(a: &RV, b: &RV) -> Coerced {
    let f = |v: &RV| -> f64 {
        match v {
            RV::Real(r) => *r,
            RV::Int(i) => *i as f64,
            RV::Nil => 0.0,
            o => o.coercion_len() as f64,
        }
    };
    let i = |v: &RV| -> i64 {
        match v {
            RV::Int(i) => *i,
            RV::Real(r) => *r as i64,
            RV::Nil => 0,
            o => o.coercion_len(),
        }
    };
    if matches!(a, RV::Real(_)) || matches!(b, RV::Real(_)) {
        return Coerced::Reals(f(a), f(b));
    }
    if matches!(a, RV::Int(_)) || matches!(b, RV::Int(_)) {
        return Coerced::Ints(i(a), i(b));
    }
    Coerced::None
}

pub fn rv_cmp(a: &RV, b: &RV) -> Ord3 {
    match coerce(a, b) {
        Coerced::Reals(x, y) => match x.partial_cmp(&y) {
            Some(std::cmp::Ordering::Less) => Ord3::Less,
            Some(std::cmp::Ordering::Equal) => Ord3::Equal,
            Some(std::cmp::Ordering::Greater) => Ord3::Greater,
            None => Ord3::Unordered,
        },
        Coerced::Ints(x, y) => match x.cmp(&y) {
            std::cmp::Ordering::Less => Ord3::Less,
            std::cmp::Ordering::Equal => Ord3::Equal,
            std::cmp::Ordering::Greater => Ord3::Greater,
        },
        Coerced::None => {
            if a.is_obj() && b.is_obj() {
                if rv_eq(a, b, 0) {
                    return Ord3::Equal;
                }
                match a.coercion_len().cmp(&b.coercion_len()) {
                    std::cmp::Ordering::Less => Ord3::Less,
                    std::cmp::Ordering::Greater => Ord3::Greater,
                    std::cmp::Ordering::Equal => Ord3::Unordered,
                }
            } else {
                Ord3::Unordered
            }
        }
    }
}

pub fn to_dval(v: &RV) -> DVal {
    let mut stack: Vec<*const RefCell<RTable>> = Vec::new();
    let mut budget = crate::dval::SNAPSHOT_NODE_BUDGET;
    to_dval_rec(v, &mut stack, &mut budget)
}

fn to_dval_rec(v: &RV, stack: &mut Vec<*const RefCell<RTable>>, budget: &mut usize) -> DVal {
    if *budget == 0 {
        return DVal::Other("too-large".into());
    }
    *budget -= 1;
    match v {
        RV::Nil => DVal::Nil,
        RV::Int(i) => DVal::Int(*i),
        RV::Real(r) => DVal::Real(real_bits(*r)),
        RV::Str(s) => DVal::Str(s.to_string()),
        RV::Table(t) => {
            let p = Rc::as_ptr(t);
            if let Some(pos) = stack.iter().position(|x| *x == p) {
                return DVal::Cycle(pos);
            }
            if stack.len() > 64 {
                return DVal::Other("too-deep".into());
            }
            stack.push(p);
            let out = t.borrow().entries.iter().map(|(k, v)| (to_dval_rec(k, stack, budget), to_dval_rec(v, stack, budget))).collect();
            stack.pop();
            DVal::Table(out)
        }
        RV::Func(_) => DVal::Func("function".into(), -2),
        RV::Native(_) => DVal::Func("native".into(), -1),
        RV::Closure(c) => DVal::Func("closure".into(), c.func.arguments.len() as i64),
    }
}

/// does `v` (transitively) contain the table `target`?
pub fn reaches(v: &RV, target: *const RefCell<RTable>, depth: usize) -> bool {
    match v {
        RV::Table(t) => {
            if Rc::as_ptr(t) == target {
                return true;
            }
            if depth > 32 {
                return true;
            }
            t.borrow().entries.iter().any(|(k, x)| reaches(k, target, depth + 1) || reaches(x, target, depth + 1))
        }
        _ => false,
    }
}

impl RTable {
    pub fn find(&self, k: &RV) -> Option<usize> {
        self.entries.iter().position(|(kk, _)| rv_eq(kk, k, 0))
    }
    pub fn get(&self, k: &RV) -> RV {
        self.find(k).map(|i| self.entries[i].1.clone()).unwrap_or(RV::Nil)
    }
    pub fn set(&mut self, k: RV, v: RV) {
        match self.find(&k) {
            Some(i) => self.entries[i].1 = v,
            None => self.entries.push((k, v)),
        }
    }
    pub fn append(&mut self, v: RV) {
        let mut idx = self.entries.len() as i64;
        while self.find(&RV::Int(idx)).is_some() {
            idx += 1;
        }
        self.entries.push((RV::Int(idx), v));
    }
    pub fn pop(&mut self) -> RV {
        self.entries.pop().map(|(_, v)| v).unwrap_or(RV::Nil)
    }
}

/// C08 reference resolver: which function does `name` designate for code in module `caller`?
pub fn resolve_name(by_name: &HashMap<String, usize>, imports: &HashMap<Vec<String>, Vec<String>>, caller: &[String], name: &str) -> Option<usize> {
    // (1) absolute dotted path from the root
    if let Some(i) = by_name.get(name) {
        return Some(*i);
    }
    // (2) relative to the caller's module
    let rel = if caller.is_empty() { name.to_string() } else { format!("{}.{}", caller.join("."), name) };
    if let Some(i) = by_name.get(&rel) {
        return Some(*i);
    }
    let imps = imports.get(caller)?;
    let expand = |imp: &str| -> Option<(Vec<String>, String)> {
        // walk up one module per leading `super.`
        let mut base: Vec<String> = caller.to_vec();
        let mut rest = imp;
        while let Some(r) = rest.strip_prefix("super.") {
            base.pop()?;
            rest = r;
        }
        Some((base, rest.to_string()))
    };
    // (3) function import whose last segment is the name
    for imp in imps {
        if let Some((_, last)) = imp.rsplit_once('.') {
            if last == name {
                let (base, rest) = expand(imp)?;
                let full = if base.is_empty() { rest } else { format!("{}.{}", base.join("."), rest) };
                return by_name.get(&full).copied();
            }
        }
    }
    // (4) alias.rest where alias is the last segment of a module import
    if let Some((alias, rest)) = name.split_once('.') {
        for imp in imps {
            if let Some((_, last)) = imp.rsplit_once('.') {
                if last == alias {
                    let (base, imp_rest) = expand(imp)?;
                    let full = if base.is_empty() { format!("{imp_rest}.{rest}") } else { format!("{}.{}.{}", base.join("."), imp_rest, rest) };
                    return by_name.get(&full).copied();
                }
            }
        }
    }
    None
}

impl<'a> Interp<'a> {
    pub fn new(root: &'a Module, natives: HashMap<String, NativeSpec>, inputs: Vec<DVal>) -> Self {
        let mut funcs = Vec::new();
        let mut imports = HashMap::new();
        collect_functions(root, &mut Vec::new(), &mut funcs, &mut imports);
        let std_path = Rc::new(vec!["std".to_string()]);
        for (i, (name, params)) in STD_FUNCS.iter().enumerate() {
            funcs.push(FInfo {
                full_name: format!("std.{name}"),
                module_path: std_path.clone(),
                index_in_module: i,
                arity: params.len(),
                params: params.iter().map(|s| s.to_string()).collect(),
                body: FBody::Std(name),
            });
        }
        imports.insert(vec!["std".to_string()], vec![]);
        let mut by_name = HashMap::new();
        for (i, f) in funcs.iter().enumerate() {
            by_name.entry(f.full_name.clone()).or_insert(i);
        }
        Interp {
            root,
            funcs,
            by_name,
            globals: Vec::new(),
            log: Vec::new(),
            natives,
            inputs,
            fuel: 300_000,
            steps: 0,
            depth: 0,
            max_depth: 0,
            depth_limit: 100,
            overflow_seen: false,
            leftovers: 0,
            cards_run: HashMap::new(),
            features: HashMap::new(),
            chain: Vec::new(),
            imports,
        }
    }

    pub fn resolve(&self, caller: &[String], name: &str) -> Option<usize> {
        resolve_name(&self.by_name, &self.imports, caller, name)
    }

    fn feat(&mut self, k: &'static str) {
        *self.features.entry(k).or_insert(0) += 1;
    }

    fn err<T>(&self, kind: &str, at: &Loc) -> R<T> {
        Err(Stop::Error { kind: kind.to_string(), at: at.clone(), chain: self.chain.iter().rev().cloned().collect() })
    }

    fn global_get(&self, name: &str) -> Option<RV> {
        self.globals.iter().find(|(n, _)| n == name).map(|(_, v)| v.clone())
    }
    fn global_set(&mut self, name: &str, v: RV) {
        if let Some(e) = self.globals.iter_mut().find(|(n, _)| n == name) {
            e.1 = v;
        } else {
            self.globals.push((name.to_string(), v));
        }
    }

    fn lookup(act: &Act, name: &str) -> Option<Cell> {
        for scope in act.scopes.iter().rev() {
            for (n, c) in scope.iter().rev() {
                if n == name {
                    return Some(c.clone());
                }
            }
        }
        for (n, c) in act.captured.iter() {
            if n == name {
                return Some(c.clone());
            }
        }
        None
    }

    /// run the program: `main` of the root module
    pub fn run_main(mut self) -> Outcome {
        let main = self.by_name.get("main").copied();
        let mut result = "Ok".to_string();
        let mut error_at = None;
        let mut error_chain = vec![];
        let mut inconclusive = None;
        let mut unspecified = None;
        match main {
            None => unspecified = Some("no main".into()),
            Some(mi) => {
                let r = self.call_function(mi, vec![], None);
                match r {
                    Ok(_) | Err(Stop::Abort) | Err(Stop::Return(_)) => {}
                    Err(Stop::Error { kind, at, chain }) => {
                        result = kind;
                        error_at = Some(at);
                        error_chain = chain;
                    }
                    Err(Stop::Fuel) => inconclusive = Some("reference interpreter ran out of fuel".to_string()),
                    Err(Stop::Unspecified(s)) => unspecified = Some(s),
                }
            }
        }
        let globals = self.globals.iter().map(|(n, v)| (n.clone(), to_dval(v))).collect();
        Outcome {
            result,
            error_at,
            error_chain,
            globals,
            log: std::mem::take(&mut self.log),
            steps: self.steps,
            max_depth: self.max_depth,
            overflow_seen: self.overflow_seen,
            leftovers: self.leftovers,
            cards_run: std::mem::take(&mut self.cards_run),
            features: std::mem::take(&mut self.features),
            inconclusive,
            unspecified,
        }
    }

    fn enter(&mut self, n: usize) -> R<()> {
        self.depth += n;
        if self.depth > self.max_depth {
            self.max_depth = self.depth;
        }
        if self.depth > self.depth_limit {
            return Err(Stop::Unspecified(format!("call depth above {} (resource limits are not judged here)", self.depth_limit)));
        }
        Ok(())
    }

    /// args in *supplied* order; parameter k of n receives argument n-1-k
    pub fn call_function(&mut self, fi: usize, args: Vec<RV>, call_site: Option<Loc>) -> R<RV> {
        let arity = self.funcs[fi].arity;
        if args.len() != arity {
            return Err(Stop::Unspecified(format!("call of {} with {} arguments, arity {}", self.funcs[fi].full_name, args.len(), arity)));
        }
        if let FBody::Std(name) = self.funcs[fi].body {
            return self.call_std(name, args, call_site);
        }
        self.enter(1)?;
        if let Some(cs) = &call_site {
            self.chain.push(cs.clone());
        }
        let (func, mp, idx) = match &self.funcs[fi].body {
            FBody::Script(f) => (f.clone(), self.funcs[fi].module_path.clone(), self.funcs[fi].index_in_module),
            FBody::Std(_) => unreachable!(),
        };
        let mut scope = Vec::new();
        for (k, p) in func.arguments.iter().enumerate() {
            scope.push((p.clone(), Rc::new(RefCell::new(args[arity - 1 - k].clone()))));
        }
        // parameters are declared last-to-first, so for duplicate names the *first* declared wins on lookup
        scope.reverse();
        let mut act = Act { scopes: vec![scope], captured: Rc::new(Vec::new()), module_path: mp.clone() };
        let base = Loc { module: mp.to_vec(), function: idx, indices: vec![] };
        let r = self.run_body(&func.cards, &mut act, &base);
        if call_site.is_some() {
            self.chain.pop();
        }
        self.depth -= 1;
        match r {
            Ok(()) => Ok(RV::Nil),
            Err(Stop::Return(v)) => Ok(v),
            Err(e) => Err(e),
        }
    }

    fn call_closure(&mut self, c: &Rc<RClosure>, args: Vec<RV>, call_site: Option<Loc>) -> R<RV> {
        let arity = c.func.arguments.len();
        if args.len() != arity {
            return Err(Stop::Unspecified(format!("closure call with {} arguments, arity {}", args.len(), arity)));
        }
        self.enter(1)?;
        if let Some(cs) = &call_site {
            self.chain.push(cs.clone());
        }
        let mut scope = Vec::new();
        for (k, p) in c.func.arguments.iter().enumerate() {
            scope.push((p.clone(), Rc::new(RefCell::new(args[arity - 1 - k].clone()))));
        }
        scope.reverse();
        let mut act = Act { scopes: vec![scope], captured: Rc::new(c.env.clone()), module_path: c.module_path.clone() };
        let base = c.origin.clone();
        let r = self.run_body(&c.func.cards, &mut act, &base);
        if call_site.is_some() {
            self.chain.pop();
        }
        self.depth -= 1;
        match r {
            Ok(()) => Ok(RV::Nil),
            Err(Stop::Return(v)) => Ok(v),
            Err(e) => Err(e),
        }
    }

    /// call any function value with arguments in supplied (push) order
    pub fn call_value(&mut self, f: &RV, args: Vec<RV>, at: &Loc, call_site: Option<Loc>) -> R<RV> {
        match f {
            RV::Func(fi) => self.call_function(*fi, args, call_site),
            RV::Closure(c) => {
                let c = c.clone();
                self.call_closure(&c, args, call_site)
            }
            RV::Native(name) => {
                let name = name.clone();
                self.call_native(&name, args, at)
            }
            _ => self.err("InvalidArgument", at),
        }
    }

    fn run_body(&mut self, cards: &[Card], act: &mut Act, base: &Loc) -> R<()> {
        for (i, c) in cards.iter().enumerate() {
            let mut loc = base.clone();
            loc.indices.push(i as u32);
            if self.run_card(c, act, &loc)?.is_some() {
                self.leftovers += 1;
            }
        }
        Ok(())
    }

    fn expr(&mut self, c: &Card, act: &mut Act, loc: &Loc) -> R<RV> {
        match self.run_card(c, act, loc)? {
            Some(v) => Ok(v),
            None => Err(Stop::Unspecified(format!("{} used in a value slot does not produce a value", card_kind(c)))),
        }
    }

    fn child(loc: &Loc, i: u32) -> Loc {
        let mut l = loc.clone();
        l.indices.push(i);
        l
    }

    fn arith(&mut self, op: char, a: &RV, b: &RV) -> RV {
        match coerce(a, b) {
            Coerced::Reals(x, y) => RV::Real(match op {
                '+' => x + y,
                '-' => x - y,
                '*' => x * y,
                _ => x / y,
            }),
            Coerced::Ints(x, y) => {
                if op == '/' {
                    return RV::Real(x as f64 / y as f64);
                }
                let (r, o) = match op {
                    '+' => x.overflowing_add(y),
                    '-' => x.overflowing_sub(y),
                    _ => x.overflowing_mul(y),
                };
                if o {
                    self.overflow_seen = true;
                }
                RV::Int(r)
            }
            Coerced::None => RV::Nil,
        }
    }

    fn as_table(&self, v: &RV, at: &Loc) -> R<Rc<RefCell<RTable>>> {
        match v {
            RV::Table(t) => Ok(t.clone()),
            _ => self.err("InvalidArgument", at),
        }
    }

    /// executes a card; Some(v) if the card produced a value
    fn run_card(&mut self, c: &Card, act: &mut Act, loc: &Loc) -> R<Option<RV>> {
        self.steps += 1;
        if self.steps > self.fuel {
            return Err(Stop::Fuel);
        }
        *self.cards_run.entry(card_kind(c)).or_insert(0) += 1;
        use CardBody::*;
        let v = match &c.body {
            ScalarNil => Some(RV::Nil),
            ScalarInt(i) => Some(RV::Int(*i)),
            ScalarFloat(f) => Some(RV::Real(*f)),
            StringLiteral(s) => Some(RV::str(s)),
            CreateTable => Some(RV::new_table()),
            Comment(_) => None,
            Abort => return Err(Stop::Abort),
            Add(b) | Sub(b) | Mul(b) | Div(b) => {
                let x = self.expr(&b[0], act, &Self::child(loc, 0))?;
                let y = self.expr(&b[1], act, &Self::child(loc, 1))?;
                let op = match &c.body {
                    Add(_) => '+',
                    Sub(_) => '-',
                    Mul(_) => '*',
                    _ => '/',
                };
                if !(x.is_num() && y.is_num()) {
                    self.feat("arith:coerced-operand");
                }
                if matches!(x, RV::Func(_) | RV::Native(_) | RV::Closure(_)) || matches!(y, RV::Func(_) | RV::Native(_) | RV::Closure(_)) {
                    return Err(Stop::Unspecified("function value as arithmetic operand".into()));
                }
                Some(self.arith(op, &x, &y))
            }
            Less(b) | LessOrEq(b) => {
                let x = self.expr(&b[0], act, &Self::child(loc, 0))?;
                let y = self.expr(&b[1], act, &Self::child(loc, 1))?;
                if matches!(x, RV::Func(_) | RV::Native(_) | RV::Closure(_)) || matches!(y, RV::Func(_) | RV::Native(_) | RV::Closure(_)) {
                    return Err(Stop::Unspecified("function value as comparison operand".into()));
                }
                if (matches!(x, RV::Str(_)) && matches!(y, RV::Table(_))) || (matches!(x, RV::Table(_)) && matches!(y, RV::Str(_))) {
                    return Err(Stop::Unspecified("string compared with table".into()));
                }
                let o = rv_cmp(&x, &y);
                let r = match &c.body {
                    Less(_) => o == Ord3::Less,
                    _ => o == Ord3::Less || o == Ord3::Equal,
                };
                Some(RV::Int(r as i64))
            }
            Equals(b) | NotEquals(b) => {
                let x = self.expr(&b[0], act, &Self::child(loc, 0))?;
                let y = self.expr(&b[1], act, &Self::child(loc, 1))?;
                let e = rv_eq(&x, &y, 0);
                Some(RV::Int(if matches!(&c.body, Equals(_)) { e } else { !e } as i64))
            }
            And(b) | Or(b) | Xor(b) => {
                // both operands are always evaluated; truthiness is taken when the operator runs
                // (a table operand is a reference: the second operand may still change it)
                let x = self.expr(&b[0], act, &Self::child(loc, 0))?;
                let y = self.expr(&b[1], act, &Self::child(loc, 1))?;
                let (x, y) = (x.truthy(), y.truthy());
                let r = match &c.body {
                    And(_) => x && y,
                    Or(_) => x || y,
                    _ => x ^ y,
                };
                Some(RV::Int(r as i64))
            }
            Not(u) => {
                let x = self.expr(&u.card, act, &Self::child(loc, 0))?;
                Some(RV::Int(!x.truthy() as i64))
            }
            Return(u) => {
                let x = self.expr(&u.card, act, &Self::child(loc, 0))?;
                return Err(Stop::Return(x));
            }
            Len(u) => {
                let x = self.expr(&u.card, act, &Self::child(loc, 0))?;
                match x {
                    RV::Str(_) | RV::Table(_) => Some(RV::Int(x.coercion_len())),
                    _ => return Err(Stop::Unspecified("Len of a value that is neither table nor string".into())),
                }
            }
            SetProperty(t) => {
                let val = self.expr(&t[0], act, &Self::child(loc, 0))?;
                let tab = self.expr(&t[1], act, &Self::child(loc, 1))?;
                let key = self.expr(&t[2], act, &Self::child(loc, 2))?;
                let tab = self.as_table(&tab, loc)?;
                Self::check_key(&key)?;
                if reaches(&val, Rc::as_ptr(&tab), 0) {
                    return Err(Stop::Unspecified("cyclic table (acyclic values only; crash-freedom on cycles is C04's)".into()));
                }
                tab.borrow_mut().set(key, val);
                None
            }
            GetProperty(b) => {
                let tab = self.expr(&b[0], act, &Self::child(loc, 0))?;
                let key = self.expr(&b[1], act, &Self::child(loc, 1))?;
                let tab = self.as_table(&tab, loc)?;
                Self::check_key(&key)?;
                let v = tab.borrow().get(&key);
                Some(v)
            }
            AppendTable(b) => {
                let val = self.expr(&b[0], act, &Self::child(loc, 0))?;
                let tab = self.expr(&b[1], act, &Self::child(loc, 1))?;
                let tab = self.as_table(&tab, loc)?;
                if reaches(&val, Rc::as_ptr(&tab), 0) {
                    return Err(Stop::Unspecified("cyclic table (acyclic values only; crash-freedom on cycles is C04's)".into()));
                }
                tab.borrow_mut().append(val);
                None
            }
            PopTable(u) => {
                let tab = self.expr(&u.card, act, &Self::child(loc, 0))?;
                let tab = self.as_table(&tab, loc)?;
                let v = tab.borrow_mut().pop();
                Some(v)
            }
            Get(b) => {
                let tab = self.expr(&b[0], act, &Self::child(loc, 0))?;
                let idx = self.expr(&b[1], act, &Self::child(loc, 1))?;
                let tab = self.as_table(&tab, loc)?;
                let i = match idx {
                    RV::Int(i) => i,
                    _ => return self.err("InvalidArgument", loc),
                };
                if i < 0 {
                    return self.err("InvalidArgument", loc);
                }
                let t = tab.borrow();
                if i as usize >= t.entries.len() {
                    return Err(Stop::Unspecified("Get with an index past the end".into()));
                }
                let (k, v) = t.entries[i as usize].clone();
                let row = RV::new_table();
                if let RV::Table(r) = &row {
                    r.borrow_mut().set(RV::str("key"), k);
                    r.borrow_mut().set(RV::str("value"), v);
                }
                Some(row)
            }
            Array(cards) => {
                let t = RV::new_table();
                for (i, cc) in cards.iter().enumerate() {
                    let v = self.expr(cc, act, &Self::child(loc, i as u32))?;
                    if let RV::Table(tt) = &t {
                        tt.borrow_mut().append(v);
                    }
                }
                self.feat("array");
                Some(t)
            }
            Function(name) => match self.resolve(&act.module_path, name) {
                Some(fi) => Some(RV::Func(fi)),
                None => return Err(Stop::Unspecified(format!("unresolvable function reference {name} (compile error expected)"))),
            },
            NativeFunction(name) => Some(RV::Native(Rc::new(name.clone()))),
            Closure(f) => {
                // capture (by reference) every binding visible here, innermost first
                let mut env: Vec<(String, Cell)> = Vec::new();
                for scope in act.scopes.iter().rev() {
                    for (n, cell) in scope.iter().rev() {
                        env.push((n.clone(), cell.clone()));
                    }
                }
                for (n, cell) in act.captured.iter() {
                    env.push((n.clone(), cell.clone()));
                }
                self.feat("closure-created");
                if self.depth > 1 {
                    self.feat("closure-created-in-callee");
                }
                Some(RV::Closure(Rc::new(RClosure { func: (**f).clone(), env, module_path: act.module_path.clone(), origin: loc.clone() })))
            }
            ReadVar(name) => {
                let (base, props) = match name.split_once('.') {
                    Some((b, p)) => (b, Some(p)),
                    None => (name.as_str(), None),
                };
                if base.is_empty() {
                    return Err(Stop::Unspecified("empty variable name".into()));
                }
                let mut v = match Self::lookup(act, base) {
                    Some(cell) => {
                        let is_captured = !act.scopes.iter().any(|s| s.iter().any(|(n, _)| n == base));
                        if is_captured {
                            self.feat("upvalue-read");
                        }
                        let x = cell.borrow().clone();
                        x
                    }
                    None => match self.global_get(base) {
                        Some(v) => v,
                        None => return Err(Stop::Unspecified(format!("read of global {base} before any write"))),
                    },
                };
                if let Some(props) = props {
                    for p in props.split('.').filter(|p| !p.is_empty()) {
                        let t = self.as_table(&v, loc)?;
                        let nv = t.borrow().get(&RV::str(p));
                        v = nv;
                    }
                }
                Some(v)
            }
            SetVar(s) => {
                let val = self.expr(&s.value, act, &Self::child(loc, 0))?;
                match s.name.rsplit_once('.') {
                    Some((path, prop)) => {
                        // shorthand: t.a.b = v  ==  SetProperty(v, ReadVar(t.a), "b")
                        let (base, props) = match path.split_once('.') {
                            Some((b, p)) => (b, Some(p)),
                            None => (path, None),
                        };
                        if base.is_empty() {
                            return Err(Stop::Unspecified("empty variable name".into()));
                        }
                        let mut v = match Self::lookup(act, base) {
                            Some(cell) => {
                                let x = cell.borrow().clone();
                                x
                            }
                            None => match self.global_get(base) {
                                Some(v) => v,
                                None => return Err(Stop::Unspecified(format!("read of global {base} before any write"))),
                            },
                        };
                        if let Some(props) = props {
                            for p in props.split('.').filter(|p| !p.is_empty()) {
                                let t = self.as_table(&v, loc)?;
                                let nv = t.borrow().get(&RV::str(p));
                                v = nv;
                            }
                        }
                        let t = self.as_table(&v, loc)?;
                        if reaches(&val, Rc::as_ptr(&t), 0) {
                            return Err(Stop::Unspecified("cyclic table (acyclic values only; crash-freedom on cycles is C04's)".into()));
                        }
                        t.borrow_mut().set(RV::str(prop), val);
                    }
                    None => {
                        if s.name.is_empty() {
                            return Err(Stop::Unspecified("empty variable name".into()));
                        }
                        match Self::lookup(act, &s.name) {
                            Some(cell) => {
                                let is_captured = !act.scopes.iter().any(|sc| sc.iter().any(|(n, _)| n == &s.name));
                                if is_captured {
                                    self.feat("upvalue-write");
                                }
                                *cell.borrow_mut() = val;
                            }
                            None => {
                                act.scopes.last_mut().unwrap().push((s.name.clone(), Rc::new(RefCell::new(val))));
                            }
                        }
                    }
                }
                None
            }
            SetGlobalVar(s) => {
                let val = self.expr(&s.value, act, &Self::child(loc, 0))?;
                if s.name.is_empty() {
                    return Err(Stop::Unspecified("empty variable name".into()));
                }
                self.global_set(&s.name, val);
                None
            }
            IfTrue(b) | IfFalse(b) => {
                let cnd = self.expr(&b[0], act, &Self::child(loc, 0))?.truthy();
                let want = matches!(&c.body, IfTrue(_));
                if cnd == want {
                    if self.run_card(&b[1], act, &Self::child(loc, 1))?.is_some() {
                        self.leftovers += 1;
                    }
                }
                None
            }
            IfElse(t) => {
                let cnd = self.expr(&t[0], act, &Self::child(loc, 0))?.truthy();
                if cnd {
                    self.run_card(&t[1], act, &Self::child(loc, 1))?
                } else {
                    self.run_card(&t[2], act, &Self::child(loc, 2))?
                }
            }
            While(b) => {
                loop {
                    let cnd = self.expr(&b[0], act, &Self::child(loc, 0))?.truthy();
                    if !cnd {
                        break;
                    }
                    if self.run_card(&b[1], act, &Self::child(loc, 1))?.is_some() {
                        self.leftovers += 1;
                    }
                    self.steps += 1;
                    if self.steps > self.fuel {
                        return Err(Stop::Fuel);
                    }
                }
                None
            }
            Repeat(r) => {
                let n = self.expr(&r.n, act, &Self::child(loc, 0))?;
                if matches!(n, RV::Func(_) | RV::Native(_) | RV::Closure(_)) {
                    return Err(Stop::Unspecified("function value as repeat count".into()));
                }
                let mut i: i64 = 0;
                loop {
                    if rv_cmp(&RV::Int(i), &n) != Ord3::Less {
                        break;
                    }
                    let mut scope = Vec::new();
                    if let Some(name) = &r.i {
                        if name.is_empty() {
                            return Err(Stop::Unspecified("empty variable name".into()));
                        }
                        scope.push((name.clone(), Rc::new(RefCell::new(RV::Int(i)))));
                    }
                    act.scopes.push(scope);
                    let rr = self.run_card(&r.body, act, &Self::child(loc, 1));
                    act.scopes.pop();
                    if rr?.is_some() {
                        self.leftovers += 1;
                    }
                    i += 1;
                    self.steps += 1;
                    if self.steps > self.fuel {
                        return Err(Stop::Fuel);
                    }
                }
                None
            }
            ForEach(fe) => {
                let it = self.expr(&fe.iterable, act, &Self::child(loc, 0))?;
                let tab = self.as_table(&it, loc)?;
                let mut i = 0usize;
                loop {
                    let row = {
                        let t = tab.borrow();
                        if i >= t.entries.len() {
                            None
                        } else {
                            Some(t.entries[i].clone())
                        }
                    };
                    let Some((k, v)) = row else { break };
                    let mut scope = Vec::new();
                    // declared in the order v, k, i: the last one declared wins for duplicate names
                    for (name, val) in [(&fe.v, v), (&fe.k, k), (&fe.i, RV::Int(i as i64))] {
                        if let Some(name) = name {
                            if name.is_empty() {
                                return Err(Stop::Unspecified("empty variable name".into()));
                            }
                            scope.push((name.clone(), Rc::new(RefCell::new(val))));
                        }
                    }
                    act.scopes.push(scope);
                    let len_before = tab.borrow().entries.len();
                    let rr = self.run_card(&fe.body, act, &Self::child(loc, 1));
                    act.scopes.pop();
                    if rr?.is_some() {
                        self.leftovers += 1;
                    }
                    if tab.borrow().entries.len() != len_before {
                        return Err(Stop::Unspecified("table mutated while being iterated".into()));
                    }
                    i += 1;
                    self.steps += 1;
                    if self.steps > self.fuel {
                        return Err(Stop::Fuel);
                    }
                }
                None
            }
            CompositeCard(cc) => {
                let mut vals = Vec::new();
                for (i, card) in cc.cards.iter().enumerate() {
                    if let Some(v) = self.run_card(card, act, &Self::child(loc, i as u32))? {
                        vals.push(v);
                    }
                }
                if vals.len() > 1 {
                    self.leftovers += vals.len() as u64 - 1;
                }
                vals.pop()
            }
            Call(j) => {
                let mut args = Vec::new();
                for (i, a) in j.args.0.iter().enumerate() {
                    args.push(self.expr(a, act, &Self::child(loc, i as u32))?);
                }
                let fi = match self.resolve(&act.module_path, &j.function_name) {
                    Some(fi) => fi,
                    None => return Err(Stop::Unspecified(format!("unresolvable call {} (compile error expected)", j.function_name))),
                };
                if self.depth >= 1 {
                    self.feat("call-from-callee");
                }
                Some(self.call_function(fi, args, Some(loc.clone()))?)
            }
            DynamicCall(j) => {
                let mut args = Vec::new();
                // children: function = slot 0, arguments = slots 1..
                for (i, a) in j.args.0.iter().enumerate() {
                    args.push(self.expr(a, act, &Self::child(loc, i as u32 + 1))?);
                }
                let f = self.expr(&j.function, act, &Self::child(loc, 0))?;
                match &f {
                    RV::Closure(_) => self.feat("dynamic-call:closure"),
                    RV::Func(_) => self.feat("dynamic-call:function"),
                    RV::Native(_) => self.feat("dynamic-call:native"),
                    _ => self.feat("dynamic-call:non-function"),
                }
                Some(self.call_value(&f, args, loc, Some(loc.clone()))?)
            }
            CallNative(j) => {
                let mut args = Vec::new();
                for (i, a) in j.args.0.iter().enumerate() {
                    args.push(self.expr(a, act, &Self::child(loc, i as u32))?);
                }
                Some(self.call_native(&j.name, args, loc)?)
            }
        };
        Ok(v)
    }

    fn check_key(k: &RV) -> R<()> {
        match k {
            RV::Nil | RV::Int(_) | RV::Str(_) => Ok(()),
            RV::Real(r) if r.is_finite() && *r != 0.0 => Ok(()),
            _ => Err(Stop::Unspecified(format!("{} used as a table key", k.kind()))),
        }
    }

    /// host functions: parameter k receives argument k
    pub fn call_native(&mut self, name: &str, args: Vec<RV>, at: &Loc) -> R<RV> {
        let spec = match self.natives.get(name) {
            Some(s) => s.clone(),
            None => return self.err("ProcedureNotFound", at),
        };
        let want = match &spec {
            NativeSpec::Log(n) => *n,
            NativeSpec::Id => 1,
            NativeSpec::Input(_) => 0,
            NativeSpec::Apply(n) => 1 + n,
            NativeSpec::Fail => 0,
            NativeSpec::Pair => 2,
            NativeSpec::Wrap(n) => *n,
            NativeSpec::Keep => 2,
            NativeSpec::Try => 2,
            NativeSpec::Chain2 => 2,
            NativeSpec::Concat => 2,
        };
        if args.len() != want {
            return Err(Stop::Unspecified(format!("native {name} called with {} arguments, takes {want}", args.len())));
        }
        match spec {
            NativeSpec::Log(_) => {
                let d = args.iter().map(to_dval).collect();
                self.log.push((name.to_string(), d));
                Ok(RV::Nil)
            }
            NativeSpec::Id => Ok(args[0].clone()),
            NativeSpec::Input(i) => Ok(match self.inputs.get(i) {
                Some(DVal::Int(x)) => RV::Int(*x),
                Some(DVal::Real(b)) => RV::Real(f64::from_bits(*b)),
                Some(DVal::Str(s)) => RV::str(s),
                _ => RV::Nil,
            }),
            NativeSpec::Apply(_) => {
                let f = args[0].clone();
                let rest: Vec<RV> = args[1..].to_vec();
                self.feat("native-reenters-script");
                // run_function pushes a trap frame and the callee frame
                self.enter(1)?;
                let r = self.call_value(&f, rest, at, None);
                self.depth -= 1;
                match r {
                    Err(Stop::Error { kind, at: _, chain: _ }) => {
                        // the error surfaces as a failure of the native
                        Err(Stop::Error { kind: format!("TaskFailure[{name}:{kind}]"), at: at.clone(), chain: self.chain.iter().rev().cloned().collect() })
                    }
                    other => other,
                }
            }
            NativeSpec::Fail => self.err(&format!("TaskFailure[{name}:InvalidArgument]"), at),
            NativeSpec::Pair => {
                let t = RV::new_table();
                if let RV::Table(tt) = &t {
                    tt.borrow_mut().set(RV::Int(0), args[0].clone());
                    tt.borrow_mut().set(RV::Int(1), args[1].clone());
                }
                Ok(t)
            }
            NativeSpec::Wrap(_) => {
                let t = RV::new_table();
                if let RV::Table(tt) = &t {
                    for (i, a) in args.iter().enumerate() {
                        tt.borrow_mut().set(RV::Int(i as i64), a.clone());
                    }
                }
                Ok(t)
            }
            NativeSpec::Chain2 => {
                let f = args[0].clone();
                self.feat("native-reenters-script");
                self.enter(1)?;
                let r = self.call_value(&f, vec![], at, None);
                self.depth -= 1;
                let wrap = |me: &Self, e: Stop| match e {
                    Stop::Error { kind, at: _, chain: _ } => Stop::Error { kind: format!("TaskFailure[{name}:{kind}]"), at: at.clone(), chain: me.chain.iter().rev().cloned().collect() },
                    other => other,
                };
                let c = match r {
                    Ok(c) => c,
                    Err(e) => return Err(wrap(self, e)),
                };
                self.enter(1)?;
                let r2 = self.call_value(&c, vec![args[1].clone()], at, None);
                self.depth -= 1;
                match r2 {
                    Ok(v) => Ok(v),
                    Err(e) => Err(wrap(self, e)),
                }
            }
            NativeSpec::Try => {
                let f = args[0].clone();
                self.feat("native-reenters-script");
                self.enter(1)?;
                let r = self.call_value(&f, vec![args[1].clone()], at, None);
                self.depth -= 1;
                match r {
                    Err(Stop::Error { .. }) => Ok(RV::Nil),
                    other => other,
                }
            }
            NativeSpec::Keep => {
                let f = args[0].clone();
                self.feat("native-reenters-script");
                self.enter(1)?;
                let r = self.call_value(&f, vec![args[1].clone()], at, None);
                self.depth -= 1;
                match r {
                    Err(Stop::Error { kind, at: _, chain: _ }) => Err(Stop::Error { kind: format!("TaskFailure[{name}:{kind}]"), at: at.clone(), chain: self.chain.iter().rev().cloned().collect() }),
                    Err(e) => Err(e),
                    Ok(rv) => {
                        let t = RV::new_table();
                        if let RV::Table(tt) = &t {
                            tt.borrow_mut().set(RV::Int(0), rv);
                            tt.borrow_mut().set(RV::Int(1), args[1].clone());
                        }
                        Ok(t)
                    }
                }
            }
            NativeSpec::Concat => {
                let s = format!("{}|{}", to_dval(&args[0]).short(), to_dval(&args[1]).short());
                Ok(RV::str(&s))
            }
        }
    }

    // ------------------------------------------------------------ standard library specification (C09)


    fn call_std(&mut self, name: &'static str, args: Vec<RV>, call_site: Option<Loc>) -> R<RV> {
        // parameter k of n receives argument n-1-k
        let n = args.len();
        let p = |k: usize| args[n - 1 - k].clone();
        let at = call_site.clone().unwrap_or(Loc { module: vec![], function: 0, indices: vec![] });
        self.feat("std-call");
        self.enter(1)?;
        let r = self.std_inner(name, &p, &at);
        self.depth -= 1;
        r
    }

    fn std_callback(&mut self, cb: &RV, key: &RV, value: &RV, index: i64, at: &Loc) -> R<RV> {
        // the library calls callback(i, v, k): a callback declaring (key, value[, index]) sees them bound that way
        let arity = match cb {
            RV::Func(fi) => self.funcs[*fi].arity,
            RV::Closure(c) => c.func.arguments.len(),
            RV::Native(_) => return Err(Stop::Unspecified("native function as library callback".into())),
            _ => return self.err("InvalidArgument", at),
        };
        let args = match arity {
            3 => vec![RV::Int(index), value.clone(), key.clone()],
            2 => vec![value.clone(), key.clone()],
            1 => vec![key.clone()],
            _ => return Err(Stop::Unspecified(format!("library callback of arity {arity}"))),
        };
        self.call_value(cb, args, at, None)
    }

    fn key_fn(&mut self, native: &str, f: &RV, key: &RV, value: &RV, at: &Loc) -> R<RV> {
        // natives push value then key and run the function: a (key, value) function sees them bound that way
        let arity = match f {
            RV::Func(fi) => self.funcs[*fi].arity,
            RV::Closure(c) => c.func.arguments.len(),
            RV::Native(_) => return Err(Stop::Unspecified("native function as key function".into())),
            _ => return self.err(&format!("TaskFailure[{native}:InvalidArgument]"), at),
        };
        if arity != 2 {
            return Err(Stop::Unspecified(format!("key function of arity {arity}")));
        }
        self.enter(1)?;
        let r = self.call_value(f, vec![value.clone(), key.clone()], at, None);
        self.depth -= 1;
        match r {
            // an error inside the key function surfaces as a failure of the native that ran it
            Err(Stop::Error { kind, .. }) => self.err(&format!("TaskFailure[{native}:{kind}]"), at),
            other => other,
        }
    }

    fn std_inner(&mut self, name: &'static str, p: &dyn Fn(usize) -> RV, at: &Loc) -> R<RV> {
        let row = |k: RV, v: RV| -> RV {
            let r = RV::new_table();
            if let RV::Table(t) = &r {
                t.borrow_mut().set(RV::str("key"), k);
                t.borrow_mut().set(RV::str("value"), v);
            }
            r
        };
        let snapshot = |v: &RV| -> Option<Vec<(RV, RV)>> {
            match v {
                RV::Table(t) => Some(t.borrow().entries.clone()),
                _ => None,
            }
        };
        match name {
            "row_to_value" => Ok(p(1)),
            "filter" | "map" | "any" => {
                let it = p(0);
                let cb = p(1);
                let Some(entries) = snapshot(&it) else { return self.err("InvalidArgument", at) };
                let res = RV::new_table();
                for (i, (k, v)) in entries.iter().enumerate() {
                    let r = self.std_callback(&cb, k, v, i as i64, at)?;
                    if let Some(now) = snapshot(&it) {
                        if now.len() != entries.len() {
                            return Err(Stop::Unspecified("table mutated while the library iterates it".into()));
                        }
                    }
                    match name {
                        "filter" => {
                            if r.truthy() {
                                if let RV::Table(t) = &res {
                                    Self::check_key(k)?;
                                    t.borrow_mut().set(k.clone(), v.clone());
                                }
                            }
                        }
                        "map" => {
                            if let RV::Table(t) = &res {
                                Self::check_key(k)?;
                                t.borrow_mut().set(k.clone(), r);
                            }
                        }
                        _ => {
                            if r.truthy() {
                                return Ok(k.clone());
                            }
                        }
                    }
                }
                if name == "any" {
                    Ok(RV::Nil)
                } else {
                    Ok(res)
                }
            }
            "min" | "max" | "min_by_key" | "max_by_key" => {
                let it = p(0);
                let by_key = name.ends_with("by_key");
                let less = name.starts_with("min");
                let kf = if by_key { Some(p(1)) } else { None };
                let Some(entries) = snapshot(&it) else { return Ok(it) };
                if entries.is_empty() {
                    return Ok(RV::Nil);
                }
                let mut best = 0usize;
                let mut best_key = RV::Nil;
                let mut all_keys: Vec<RV> = Vec::new();
                for (j, (k, v)) in entries.iter().enumerate() {
                    let key = match &kf {
                        Some(f) => self.key_fn(if less { "__min" } else { "__max" }, f, k, v, at)?,
                        None => v.clone(),
                    };
                    if matches!(key, RV::Func(_) | RV::Native(_) | RV::Closure(_)) {
                        return Err(Stop::Unspecified("function value as ordering key".into()));
                    }
                    if j == 0 {
                        best_key = key.clone();
                        all_keys.push(key);
                        continue;
                    }
                    let o = rv_cmp(&key, &best_key);
                    if (less && o == Ord3::Less) || (!less && o == Ord3::Greater) {
                        best = j;
                        best_key = key.clone();
                    }
                    all_keys.push(key);
                }
                // incomparable keys (two different strings of one length, nil with a string, ...) count as ties when
                // "neither smaller nor greater" is an equivalence on these keys: then the smallest / largest class and
                // its first entry are well defined. Otherwise the statement does not say what the extreme is.
                if !weak_order(&all_keys) {
                    return Err(Stop::Unspecified("incomparable ordering keys".into()));
                }
                let (k, v) = entries[best].clone();
                Ok(row(k, v))
            }
            "sorted" | "sorted_by_key" => {
                let it = p(0);
                let kf = if name == "sorted_by_key" { Some(p(1)) } else { None };
                let Some(entries) = snapshot(&it) else { return Ok(it) };
                let mut keyed: Vec<(RV, RV, RV)> = Vec::new();
                for (k, v) in entries.iter() {
                    let key = match &kf {
                        Some(f) => self.key_fn("__sort", f, k, v, at)?,
                        None => v.clone(),
                    };
                    if matches!(key, RV::Func(_) | RV::Native(_) | RV::Closure(_)) {
                        return Err(Stop::Unspecified("function value as ordering key".into()));
                    }
                    keyed.push((key, k.clone(), v.clone()));
                }
                // the order must be a weak order on the keys (incomparable = tie), otherwise "ascending" has no unique meaning
                if !weak_order(&keyed.iter().map(|e| e.0.clone()).collect::<Vec<_>>()) {
                    return Err(Stop::Unspecified("incomparable ordering keys".into()));
                }
                // stable insertion sort, ascending
                let mut out: Vec<(RV, RV, RV)> = Vec::new();
                for e in keyed {
                    let mut pos = out.len();
                    while pos > 0 && rv_cmp(&e.0, &out[pos - 1].0) == Ord3::Less {
                        pos -= 1;
                    }
                    out.insert(pos, e);
                }
                let res = RV::new_table();
                if let RV::Table(t) = &res {
                    for (_, k, v) in out {
                        Self::check_key(&k)?;
                        t.borrow_mut().set(k, v);
                    }
                }
                Ok(res)
            }
            "to_array" => {
                let it = p(0);
                let Some(entries) = snapshot(&it) else { return Ok(it) };
                let res = RV::new_table();
                if let RV::Table(t) = &res {
                    for (i, (_, v)) in entries.into_iter().enumerate() {
                        t.borrow_mut().set(RV::Int(i as i64), v);
                    }
                }
                Ok(res)
            }
            _ => Err(Stop::Unspecified(format!("unknown library function {name}"))),
        }
    }
}


/// true when "neither less nor greater" is an equivalence relation on these keys that is compatible with the order
/// (a strict weak order): ties, including incomparable pairs, then form classes that are totally ordered
pub fn weak_order(keys: &[RV]) -> bool {
    let n = keys.len();
    let mut any_unordered = false;
    let mut rel: Vec<Vec<i8>> = vec![vec![0; n]; n];
    for a in 0..n {
        for b in 0..n {
            rel[a][b] = match rv_cmp(&keys[a], &keys[b]) {
                Ord3::Less => -1,
                Ord3::Greater => 1,
                Ord3::Equal => 0,
                Ord3::Unordered => {
                    any_unordered = true;
                    0
                }
            };
        }
    }
    if !any_unordered {
        return true;
    }
    for a in 0..n {
        for b in 0..n {
            if rel[a][b] != -rel[b][a] {
                return false;
            }
            if rel[a][b] == 0 {
                // tied elements relate to every third element in the same way
                for c in 0..n {
                    if rel[a][c] != rel[b][c] {
                        return false;
                    }
                }
            }
        }
    }
    true
}
