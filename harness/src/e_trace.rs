//! C15: error locations. Faults are planted at known cards (identified by Card.id) at the end of a known
//! call chain; the error's trace is resolved through the module API and compared with what was planted.
use crate::gen::*;
use crate::prng::Prng;
use crate::runner::{Engine, Obs, Tier, Verdict};
use crate::vmrun::{new_vm, VmConfig};
use cao_lang::compiler::{compile, Card, CardBody, CompileOptions, Function, Module};
use cao_lang::prelude::*;
use serde::{Deserialize, Serialize};

#[derive(Clone, Serialize, Deserialize)]
pub struct Case {
    pub seed: u64,
}

pub struct TraceEngine {}

struct Planted {
    module: Module,
    /// ids of the cards any of which may be reported as the failing card (the fault card, or its subtree for resource faults)
    fault_ids: Vec<u64>,
    fault_namespace: Vec<String>,
    /// call cards from innermost to outermost: (card id, namespace of the function containing it)
    chain: Vec<(u64, Vec<String>)>,
    /// frames between chain entries that were pushed by a native re-entering the VM exist
    kind: String,
    context: String,
    expect_compile_error: bool,
    budget: u64,
    memory_limit: usize,
    depth: usize,
    /// direct recursion: how many times the innermost function called itself before the fault (known beforehand), or
    /// the self-call card of a recursion that runs into the call-stack limit (count read from a global afterwards)
    recursion: usize,
    overflow_selfcall: Option<(u64, Vec<String>)>,
    in_submodule: bool,
    /// budget sweep: the run may stop at any card; per call level the ids of its cards, its namespace and the call card
    /// that leads to the next level; ids of cards that have no instructions of their own
    sweep: Option<Sweep>,
}

struct Sweep {
    levels: Vec<(Vec<u64>, Vec<String>, Option<u64>)>,
    no_code_ids: Vec<u64>,
}

fn ids_of(c: &Card, out: &mut Vec<u64>) {
    out.push(c.id.0);
    for ch in c.iter_children() {
        ids_of(ch, out);
    }
}

fn func(params: &[&str], cards: Vec<Card>) -> Function {
    Function { arguments: params.iter().map(|s| s.to_string()).collect(), cards }
}

/// a value-producing fault expression; returns (card, kind, is_resource)
fn fault_expr(rng: &mut Prng) -> (Card, &'static str, bool) {
    match rng.below(11) {
        0 => (native("nosuch", vec![int(1)]), "missing-native", false),
        1 => (bin("getprop", int(3), strc("k")), "getprop-on-int", false),
        2 => (un("pop", int(3)), "pop-on-int", false),
        3 => (bin("get", CardBody::CreateTable.into(), int(-1)), "get-negative", false),
        4 => (bin("get", CardBody::CreateTable.into(), strc("x")), "get-non-integer", false),
        5 => (bin("get", int(3), int(0)), "get-on-int", false),
        6 => (dyncall(int(3), vec![int(1)]), "call-non-function", false),
        7 => (native("fail", vec![]), "failing-native", false),
        8 => (dyncall(strc("notfn"), vec![]), "call-string", false),
        9 => (bin("getprop", nil(), int(1)), "getprop-on-nil", false),
        _ => (read("never_written_global"), "unset-global", false),
    }
}

/// a statement whose own instruction fails
fn fault_stmt(rng: &mut Prng) -> (Card, &'static str) {
    match rng.below(4) {
        0 => (setprop(int(1), int(3), strc("k")), "setprop-on-int"),
        1 => (bin("append", int(1), nil()), "append-to-nil"),
        2 => (foreach(Some("i"), None, Some("v"), int(3), comp(vec![])), "foreach-over-int"),
        _ => (set("zz.x", int(1)), "shorthand-setprop-on-unset-global"),
    }
}

/// wrap a value-producing card in a context that puts it in some child slot of some card kind
fn wrap_expr(rng: &mut Prng, e: Card) -> (Vec<Card>, String) {
    let pick = rng.below(16);
    let (c, name): (Card, &str) = match pick {
        0 => (discard(e), "setvar.value"),
        1 => (discard(bin("add", int(1), e)), "add.rhs"),
        2 => (discard(bin("add", e, int(1))), "add.lhs"),
        3 => (bin("iftrue", e, comp(vec![])), "iftrue.cond"),
        4 => (discard(native("log2", vec![int(1), e])), "callnative.arg1"),
        5 => (discard(native("log2", vec![e, int(1)])), "callnative.arg0"),
        6 => (repeat(e, None, comp(vec![])), "repeat.n"),
        7 => (setg("gg", e), "setglobal.value"),
        8 => (discard(un("not", e)), "not.operand"),
        9 => (ifelse(int(0), comp(vec![]), comp(vec![discard(e)])), "ifelse.else.setvar"),
        10 => (discard(ifelse(e, int(1), int(2))), "ifelse.cond"),
        11 => (bin("while", e, comp(vec![])), "while.cond"),
        12 => (discard(dyncall(CardBody::NativeFunction("id1".into()).into(), vec![e])), "dynamiccall.arg"),
        13 => (discard(un("len", e)), "len.operand"),
        14 => (discard(bin("eq", strc("a"), e)), "equals.rhs"),
        _ => (comp(vec![discard(int(1)), discard(e)]), "composite.1.setvar"),
    };
    (vec![c], name.to_string())
}

fn wrap_stmt(rng: &mut Prng, s: Card) -> (Vec<Card>, String) {
    let (c, name): (Card, &str) = match rng.below(7) {
        0 => (s, "top-level"),
        1 => (bin("iftrue", int(1), s), "iftrue.body"),
        2 => (bin("iffalse", int(0), s), "iffalse.body"),
        3 => (ifelse(int(0), comp(vec![]), s), "ifelse.else"),
        4 => (repeat(int(2), Some("i"), s), "repeat.body"),
        5 => (comp(vec![discard(int(1)), s]), "composite.1"),
        _ => (bin("while", int(1), comp(vec![s])), "while.body.composite"),
    };
    (vec![c], name.to_string())
}

fn plant(seed: u64) -> Planted {
    if seed % 7 == 3 {
        return plant_sweep(seed);
    }
    let mut rng = Prng::new(seed);
    let rng = &mut rng;
    let depth = rng.below(5);
    let in_submodule = rng.chance(1, 3);
    let mut budget = 100_000u64;
    let mut memory_limit = 1 << 24;
    let mut expect_compile_error = false;

    // ---- the fault
    let mode = rng.below(12);
    let (fault_cards, fault_ids, kind, context): (Vec<Card>, Vec<u64>, String, String) = if mode <= 6 {
        let (e, k, _) = fault_expr(rng);
        let id = e.id.0;
        let (cards, ctx) = wrap_expr(rng, e);
        (cards, vec![id], k.to_string(), ctx)
    } else if mode <= 8 {
        let (s, k) = fault_stmt(rng);
        let id = s.id.0;
        let (cards, ctx) = wrap_stmt(rng, s);
        (cards, vec![id], k.to_string(), ctx)
    } else if mode == 9 {
        // resource faults: any card of the subtree may be the one that runs out
        let (sub, k): (Card, &str) = match rng.below(3) {
            0 => {
                budget = *rng.pick(&[1000u64, 3000, 10000]);
                (bin("while", int(1), comp(vec![set("_", bin("add", int(1), int(2)))])), "timeout")
            }
            1 => {
                memory_limit = *rng.pick(&[8192usize, 32768]);
                (
                    comp(vec![set("acc", CardBody::CreateTable.into()), bin("while", int(1), comp(vec![bin("append", native("concat", vec![strc("xxxxxxxxxxxxxxxxxxxxxxxxxxxxxxxx"), int(1)]), read("acc"))]))]),
                    "out-of-memory",
                )
            }
            _ => {
                // value-stack exhaustion by a deep expression inside a loop is hard to plant in a card; use a timeout with re-entry instead
                budget = 2000;
                (bin("while", int(1), comp(vec![set("_", native("id1", vec![int(1)]))])), "timeout-with-natives")
            }
        };
        let mut ids = Vec::new();
        ids_of(&sub, &mut ids);
        let (cards, ctx) = wrap_stmt(rng, sub);
        (cards, ids, k.to_string(), ctx)
    } else {
        // compile-time faults attributable to a card
        expect_compile_error = true;
        let (c, k): (Card, &str) = match rng.below(6) {
            5 => {
                // an empty loop-variable name: the ForEach card is the offender, not its body
                let (i, kk, v) = match rng.below(3) {
                    0 => (Some(""), None, None),
                    1 => (None, Some(""), Some("v")),
                    _ => (Some("i"), Some("k"), Some("")),
                };
                (foreach(i, kk, v, native("pair", vec![int(1), int(2)]), comp(vec![setg("seen", int(1))])), "compile:foreach-empty-variable")
            }
            0 => (call("no_such_function", vec![]), "compile:unknown-function-call"),
            1 => (CardBody::Function("no.such".into()).into(), "compile:unknown-function-value"),
            2 => (set("", int(1)), "compile:empty-setvar"),
            3 => (read(""), "compile:empty-readvar"),
            _ => (setg("", int(1)), "compile:empty-setglobal"),
        };
        let id = c.id.0;
        let is_stmt = matches!(c.body, CardBody::SetVar(_) | CardBody::SetGlobalVar(_) | CardBody::ForEach(_));
        let (cards, ctx) = if is_stmt { wrap_stmt(rng, c) } else { wrap_expr(rng, c) };
        (cards, vec![id], k.to_string(), ctx)
    };

    // ---- direct recursion of the innermost function
    let rec_mode = if depth >= 1 && !expect_compile_error && mode != 9 { rng.below(8) } else { 7 };
    let recursion = if rec_mode <= 1 { rng.range(1, 12) as usize } else { 0 };
    let overflow = rec_mode == 2;
    let mut overflow_selfcall: Option<(u64, Vec<String>)> = None;
    let (fault_ids, kind) = if overflow { (Vec::new(), "call-stack-overflow-by-recursion".to_string()) } else { (fault_ids, kind) };
    let mut fault_ids = fault_ids;
    let mut self_calls: Vec<(u64, Vec<String>)> = Vec::new();
    // ---- the call chain: main -> c1 -> ... -> c_depth, the last one holds the fault
    let mut root = Module::default();
    let mut lib = Module::default();
    let pad = |rng: &mut Prng| -> Vec<Card> {
        let mut v = vec![set("_", nil())];
        for i in 0..rng.below(3) {
            v.push(set(format!("l{i}"), int(i as i64)));
        }
        if rng.chance(1, 3) {
            v.push(set("t", CardBody::CreateTable.into()));
        }
        v
    };
    // function k lives in lib when in_submodule and k is odd
    let fname = |k: usize| format!("c{k}");
    let in_lib = |k: usize| in_submodule && k % 2 == 1;
    let ns_of = |k: usize| -> Vec<String> { if k > 0 && in_lib(k) { vec!["lib".to_string()] } else { vec![] } };
    let mut chain: Vec<(u64, Vec<String>)> = Vec::new();
    let mut bodies: Vec<Vec<Card>> = Vec::new();
    for k in 0..=depth {
        let mut cards = pad(rng);
        if k == depth && overflow {
            // no base case: the recursion ends at the call-stack limit, in the self-call card
            // (no parameters and no locals: the frames take no room on the value stack, so the call stack fills first)
            cards.clear();
            cards.push(setg("depth_reached", bin("add", read("depth_reached"), int(1))));
            let selfc = if rng.chance(1, 2) { call(&fname(k), vec![]) } else { dyncall(CardBody::Function(fname(k)).into(), vec![]) };
            fault_ids.push(selfc.id.0);
            overflow_selfcall = Some((selfc.id.0, ns_of(k)));
            cards.push(discard(selfc));
            cards.push(un("ret", int(1)));
        } else if k == depth && recursion > 0 {
            let selfc = if rng.chance(1, 2) { call(&fname(k), vec![bin("sub", read("d"), int(1))]) } else { dyncall(CardBody::Function(fname(k)).into(), vec![bin("sub", read("d"), int(1))]) };
            for _ in 0..recursion {
                self_calls.push((selfc.id.0, ns_of(k)));
            }
            cards.push(ifelse(bin("less", int(0), read("d")), comp(vec![discard(selfc)]), comp(fault_cards.clone())));
            cards.push(un("ret", int(1)));
        } else if k == depth {
            cards.extend(fault_cards.clone());
            if k > 0 {
                cards.push(un("ret", int(1)));
            }
        } else {
            let callee = fname(k + 1);
            let target = if in_lib(k + 1) && !in_lib(k) {
                format!("lib.{callee}")
            } else {
                callee
            };
            let args = if k + 1 == depth && overflow {
                cards.push(setg("depth_reached", int(0)));
                vec![]
            } else {
                vec![if k + 1 == depth && recursion > 0 { int(recursion as i64) } else { int(k as i64) }]
            };
            let style = rng.below(3);
            let callc = match style {
                0 => call(&target, args),
                1 => dyncall(CardBody::Function(target).into(), args),
                _ => call(&target, args),
            };
            chain.push((callc.id.0, ns_of(k)));
            // the call sits in some slot of some card as well
            let stmt = match rng.below(4) {
                0 => discard(callc),
                1 => discard(bin("add", int(1), callc)),
                2 => bin("iftrue", int(1), comp(vec![discard(callc)])),
                _ => discard(native("id1", vec![callc])),
            };
            cards.push(stmt);
            if k > 0 {
                cards.push(un("ret", int(0)));
            }
        }
        bodies.push(cards);
    }
    chain.extend(self_calls);
    chain.reverse();
    for (k, cards) in bodies.into_iter().enumerate() {
        let f = if k == 0 {
            ("main".to_string(), func(&[], cards))
        } else if k == depth && overflow {
            (fname(k), func(&[], cards))
        } else {
            (fname(k), func(&["d"], cards))
        };
        if k > 0 && in_lib(k) {
            lib.functions.push(f);
        } else {
            root.functions.push(f);
        }
    }
    // some unrelated functions so that function indices are not trivial
    for i in 0..rng.below(3) {
        let f = (format!("pad{i}"), func(&[], vec![un("ret", int(i as i64))]));
        if rng.chance(1, 2) {
            root.functions.insert(rng.below(root.functions.len() + 1), f);
        } else {
            lib.functions.insert(rng.below(lib.functions.len() + 1), f);
        }
    }
    if in_submodule || !lib.functions.is_empty() {
        root.submodules.push(("lib".into(), lib));
    }
    Planted {
        module: root,
        fault_ids,
        fault_namespace: ns_of(depth),
        chain,
        kind,
        context,
        expect_compile_error,
        budget,
        memory_limit,
        depth,
        in_submodule,
        recursion,
        overflow_selfcall,
        sweep: None,
    }
}

/// main -> c1 -> ... -> c_depth, every level works a little before and after its call; main calls c1 forever.
/// The budget is what varies: the Timeout lands on any instruction, including calls and returns.
fn plant_sweep(seed: u64) -> Planted {
    let mut rng = Prng::new(seed ^ 0x5eed);
    let rng = &mut rng;
    let depth = rng.range(1, 4) as usize;
    let in_submodule = rng.chance(1, 3);
    let in_lib = |k: usize| in_submodule && k % 2 == 1;
    let ns_of = |k: usize| -> Vec<String> { if k > 0 && in_lib(k) { vec!["lib".to_string()] } else { vec![] } };
    let fname = |k: usize| format!("c{k}");
    let mut root = Module::default();
    let mut lib = Module::default();
    let mut levels: Vec<(Vec<u64>, Vec<String>, Option<u64>)> = Vec::new();
    let mut no_code: Vec<u64> = Vec::new();
    for k in 0..=depth {
        let mut cards = vec![set("_", nil()), set("x", int(k as i64))];
        let work = |rng: &mut Prng, no_code: &mut Vec<u64>| -> Card {
            match rng.below(4) {
                0 => set("x", bin("add", read("x"), int(1))),
                1 => {
                    let c: Card = CardBody::Comment("nothing".into()).into();
                    no_code.push(c.id.0);
                    foreach(Some("i"), Some("k"), Some("v"), native("pair", vec![int(1), int(2)]), c)
                }
                2 => repeat(int(2), Some("j"), comp(vec![set("x", bin("add", read("x"), read("j")))])),
                _ => bin("iftrue", bin("less", int(0), read("x")), comp(vec![set("x", bin("sub", read("x"), int(1)))])),
            }
        };
        for _ in 0..rng.below(3) {
            cards.push(work(rng, &mut no_code));
        }
        let mut call_id = None;
        if k < depth {
            let callee = fname(k + 1);
            let target = if in_lib(k + 1) && !in_lib(k) { format!("lib.{callee}") } else { callee };
            let callc = if rng.chance(1, 3) { dyncall(CardBody::Function(target).into(), vec![int(k as i64)]) } else { call(&target, vec![int(k as i64)]) };
            call_id = Some(callc.id.0);
            let stmt = match rng.below(3) {
                0 => discard(callc),
                1 => set("x", bin("add", read("x"), callc)),
                _ => bin("iftrue", int(1), comp(vec![discard(callc)])),
            };
            if k == 0 {
                cards.push(bin("while", int(1), comp(vec![stmt])));
            } else {
                cards.push(stmt);
            }
        }
        for _ in 0..rng.below(3) {
            cards.push(work(rng, &mut no_code));
        }
        if k > 0 {
            cards.push(un("ret", read("x")));
        } else if depth == 0 {
            cards.push(bin("while", int(1), comp(vec![set("x", int(1))])));
        }
        let mut ids = Vec::new();
        for c in cards.iter() {
            ids_of(c, &mut ids);
        }
        levels.push((ids, ns_of(k), call_id));
        let f = if k == 0 { ("main".to_string(), func(&[], cards)) } else { (fname(k), func(&["d"], cards)) };
        if k > 0 && in_lib(k) {
            lib.functions.push(f);
        } else {
            root.functions.push(f);
        }
    }
    if in_submodule {
        root.submodules.push(("lib".into(), lib));
    }
    Planted {
        module: root,
        fault_ids: vec![],
        fault_namespace: vec![],
        chain: vec![],
        kind: "timeout-budget-sweep".into(),
        context: "anywhere".into(),
        expect_compile_error: false,
        budget: rng.range(3, 700) as u64,
        memory_limit: 1 << 24,
        depth,
        in_submodule,
        recursion: 0,
        overflow_selfcall: None,
        sweep: Some(Sweep { levels, no_code_ids: no_code }),
    }
}

/// run-length encoded list of card ids (recursion produces hundreds of equal entries)
fn short_ids(ids: &[Option<u64>]) -> String {
    let mut out: Vec<String> = Vec::new();
    let mut i = 0;
    while i < ids.len() {
        let mut j = i;
        while j < ids.len() && ids[j] == ids[i] {
            j += 1;
        }
        let name = ids[i].map(|x| x.to_string()).unwrap_or_else(|| "-".into());
        out.push(if j - i > 1 { format!("{name} x{}", j - i) } else { name });
        i = j;
    }
    format!("[{}]", out.join(", "))
}

fn resolve(root: &Module, ns: &[String], index: &CardIndex) -> Result<u64, String> {
    let m = if ns.is_empty() {
        root
    } else {
        match root.lookup_submodule(&ns.join(".")) {
            Some(m) => m,
            None => return Err(format!("namespace {ns:?} names no module")),
        }
    };
    m.get_card(index).map(|c| c.id.0).map_err(|e| format!("index {index} in {ns:?}: {e}"))
}

impl Engine for TraceEngine {
    type Case = Case;
    fn name(&self) -> &'static str {
        "trace"
    }
    fn gen(&mut self, rng: &mut Prng, _tier: Tier) -> Case {
        Case { seed: rng.next_u64() }
    }
    fn describe(&self, case: &Case) -> serde_json::Value {
        let p = plant(case.seed);
        serde_json::json!({"seed": case.seed, "fault": p.kind, "context": p.context, "call_depth": p.depth, "sub_module_frames": p.in_submodule,
            "budget": p.budget, "memory_limit": p.memory_limit, "program": crate::pp::module(&p.module, "")})
    }
    fn run(&mut self, case: &Case, obs: &mut Obs) -> Verdict {
        let p = plant(case.seed);
        if std::env::var("CAOVERIF_PP").is_ok() {
            eprintln!("{}", crate::pp::module(&p.module, ""));
        }
        obs.inc(&format!("fault:{}", p.kind));
        obs.inc(&format!("context:{}", p.context));
        obs.inc(&format!("depth:{}", p.depth));
        if p.in_submodule {
            obs.inc("faults_with_submodule_frames");
        }
        let compiled = compile(p.module.clone(), CompileOptions::new());
        if p.expect_compile_error {
            let e = match compiled {
                Ok(_) => return Verdict::Skip { reason: "planted compile fault compiled".into() },
                Err(e) => e,
            };
            let Some(loc) = e.loc else {
                return Verdict::violation(format!("C15:compile:no-location:{}", p.kind), format!("{}: the compile error carries no location", e.payload));
            };
            let ns: Vec<String> = loc.namespace.iter().map(|s| s.to_string()).collect();
            return match resolve(&p.module, &ns, &loc.index) {
                Ok(id) if p.fault_ids.contains(&id) => {
                    obs.nontrivial = true;
                    obs.inc("compile_errors_located");
                    Verdict::Ok
                }
                Ok(id) => Verdict::violation(
                    format!("C15:compile:wrong-card:{}:{}", p.kind, p.context),
                    format!("{}: the location {}/{} resolves to card {id}, the offending card is {:?}", e.payload, ns.join("."), loc.index, p.fault_ids),
                ),
                Err(why) => Verdict::violation(format!("C15:compile:unresolvable:{}:{}", p.kind, p.context), format!("{}: the location does not resolve: {why}", e.payload)),
            };
        }
        let program = match compiled {
            Ok(pr) => pr,
            Err(e) => return Verdict::Inconclusive { reason: format!("harness program does not compile: {e}") },
        };
        let cfg = VmConfig { max_instr: p.budget, suppress_gc: false, memory_limit: Some(p.memory_limit), stack_size: None };
        let mut vm = new_vm(&cfg, &[]);
        let err = match vm.run(&program) {
            Ok(()) => return Verdict::Inconclusive { reason: format!("planted fault {} did not fail", p.kind) },
            Err(e) => e,
        };
        obs.inc(&format!("error:{}", crate::dval::err_kind(&err.payload).split('[').next().unwrap_or("?")));
        if err.trace.is_empty() {
            return Verdict::violation(format!("C15:empty-trace:{}", p.kind), format!("{}: the error has no trace", err.payload));
        }
        if let Some(sw) = &p.sweep {
            if !matches!(err.payload, ExecutionErrorPayload::Timeout) {
                return Verdict::Inconclusive { reason: format!("the sweep program ended with {}", crate::dval::err_kind(&err.payload)) };
            }
            let t0 = &err.trace[0];
            let ns0: Vec<String> = t0.namespace.iter().map(|s| s.to_string()).collect();
            let id0 = match resolve(&p.module, &ns0, &t0.index) {
                Ok(id) => id,
                Err(why) => return Verdict::violation("C15:sweep:unresolvable", format!("budget {}: trace[0] = {}/{} does not resolve: {why}", p.budget, ns0.join("."), t0.index)),
            };
            if sw.no_code_ids.contains(&id0) {
                return Verdict::violation("C15:sweep:card-without-instructions", format!("budget {}: trace[0] = {}/{} resolves to a Comment card, which has no instruction that could have raised the error", p.budget, ns0.join("."), t0.index));
            }
            let Some(level) = sw.levels.iter().position(|(ids, ns, _)| ids.contains(&id0) && *ns == ns0) else {
                return Verdict::violation("C15:sweep:wrong-function", format!("budget {}: trace[0] = {}/{} resolves to card {id0}, which is not a card of a function with that namespace", p.budget, ns0.join("."), t0.index));
            };
            // the active call chain when a card of level k runs: the call cards of levels k-1 .. 0
            let expected: Vec<(u64, Vec<String>)> = (0..level).rev().map(|k| (sw.levels[k].2.unwrap(), sw.levels[k].1.clone())).collect();
            let call_ids: Vec<u64> = sw.levels.iter().filter_map(|l| l.2).collect();
            let mut got: Vec<(u64, Vec<String>)> = Vec::new();
            for t in err.trace.iter().skip(1) {
                let ns: Vec<String> = t.namespace.iter().map(|s| s.to_string()).collect();
                if let Ok(id) = resolve(&p.module, &ns, &t.index) {
                    if call_ids.contains(&id) {
                        got.push((id, ns));
                    }
                }
            }
            if got != expected {
                return Verdict::violation(
                    "C15:sweep:chain",
                    format!("budget {}: the run stopped in level {level} of main -> c1 -> ... (trace[0] = card {id0}); the call cards in trace[1..] are {:?}, the active chain is {:?}", p.budget, got.iter().map(|g| g.0).collect::<Vec<_>>(), expected.iter().map(|g| g.0).collect::<Vec<_>>()),
                );
            }
            obs.inc(&format!("sweep:stopped_in_level:{level}"));
            obs.add("chain_entries_checked", expected.len() as u64);
            obs.nontrivial = true;
            return Verdict::Ok;
        }
        // trace[0]: the failing card
        let t0 = &err.trace[0];
        let ns0: Vec<String> = t0.namespace.iter().map(|s| s.to_string()).collect();
        match resolve(&p.module, &ns0, &t0.index) {
            Ok(id) if p.fault_ids.contains(&id) => {}
            Ok(id) => {
                return Verdict::violation(
                    format!("C15:wrong-card:{}:{}", p.kind, p.context),
                    format!("{} planted in {} at depth {}: trace[0] = {}/{} resolves to card {id}, the failing card is {:?}", p.kind, p.context, p.depth, ns0.join("."), t0.index, p.fault_ids),
                )
            }
            Err(why) => {
                return Verdict::violation(
                    format!("C15:unresolvable:{}:{}", p.kind, p.context),
                    format!("{} planted in {} at depth {}: trace[0] does not resolve: {why}", p.kind, p.context, p.depth),
                )
            }
        }
        if ns0 != p.fault_namespace {
            return Verdict::violation(format!("C15:wrong-namespace:{}", p.kind), format!("trace[0] carries namespace {ns0:?}, the failing function lives in {:?}", p.fault_namespace));
        }
        // trace[1..]: the call cards of the active chain, innermost first (entries that are not call cards,
        // i.e. frames pushed by a re-entering native or the program entry, are skipped)
        let mut resolved: Vec<(Option<u64>, Vec<String>)> = Vec::new();
        for t in err.trace.iter().skip(1) {
            let ns: Vec<String> = t.namespace.iter().map(|s| s.to_string()).collect();
            resolved.push((resolve(&p.module, &ns, &t.index).ok(), ns));
        }
        let mut chain = p.chain.clone();
        if let Some((id, ns)) = &p.overflow_selfcall {
            // every activation counts itself before its self-call: with a activations, a-1 self-calls are active
            // below the failing one
            let d = match vm.read_var_by_name("depth_reached", &program.variables) {
                Some(Value::Integer(d)) if d > 1 => d as usize - 1,
                other => return Verdict::Inconclusive { reason: format!("the recursion counter reads {other:?}") },
            };
            if !matches!(err.payload, ExecutionErrorPayload::CallStackOverflow) {
                return Verdict::Inconclusive { reason: format!("unbounded recursion ended with {}", crate::dval::err_kind(&err.payload)) };
            }
            for _ in 0..d {
                chain.insert(0, (*id, ns.clone()));
            }
            obs.inc("recursion_to_call_stack_limit");
            obs.max("recursive_frames_checked", d as u64);
        }
        if p.recursion > 0 {
            obs.inc("faults_below_direct_recursion");
        }
        let p_chain = chain;
        let mut pos = 0;
        for (want_id, want_ns) in p_chain.iter() {
            let found = resolved[pos..].iter().position(|(id, _)| *id == Some(*want_id));
            match found {
                None => {
                    return Verdict::violation(
                        format!("C15:chain:missing-call-card:{}", p.kind),
                        format!("the call chain has {} call cards (innermost first, {} of them the recursive self-call): {:?}; trace[1..] has {} entries resolving to {:?}", p_chain.len(), p.recursion + if p.overflow_selfcall.is_some() { p_chain.len() - p.chain.len() } else { 0 }, short_ids(&p_chain.iter().map(|c| Some(c.0)).collect::<Vec<_>>()), resolved.len(), short_ids(&resolved.iter().map(|r| r.0).collect::<Vec<_>>())),
                    )
                }
                Some(off) => {
                    let (_, ns) = &resolved[pos + off];
                    if ns != want_ns {
                        return Verdict::violation(format!("C15:chain:wrong-namespace:{}", p.kind), format!("the trace entry of call card {want_id} carries namespace {ns:?}, its function lives in {want_ns:?}"));
                    }
                    pos += off + 1;
                }
            }
        }
        obs.add("chain_entries_checked", p_chain.len() as u64);
        if p.depth >= 2 {
            obs.inc("faults_at_depth>=2");
        }
        obs.nontrivial = true;
        Verdict::Ok
    }
}
