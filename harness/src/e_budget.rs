//! C03: the instruction budget bounds every run (dispatch-counter monitor, self-differential across budgets).
use crate::dval::DVal;
use crate::e_gc::outcomes_differ;
use crate::gen::*;
use crate::prng::Prng;
use crate::runner::{Engine, Obs, Tier, Verdict};
use crate::shrink::shrink_module;
use crate::vmrun::{compile_module, new_vm, observe, VmConfig, VmOutcome};
use cao_lang::compiler::{CardBody, Function, Module};
use cao_lang::prelude::*;
use serde::{Deserialize, Serialize};
use std::cell::Cell;
use std::rc::Rc;

#[derive(Clone, Serialize, Deserialize)]
pub struct Case {
    pub module: Module,
    pub inputs: Vec<DVal>,
    pub scenario: String,
    pub extra_budgets: Vec<u64>,
    pub only_budget: Option<u64>,
}

pub struct BudgetEngine {}

fn func(params: &[&str], cards: Vec<cao_lang::compiler::Card>) -> Function {
    Function { arguments: params.iter().map(|s| s.to_string()).collect(), cards }
}

pub fn nonterminating(rng: &mut Prng) -> (Module, &'static str) {
    let mut m = Module::default();
    let mut main = vec![set("_", nil())];
    let name: &'static str;
    match rng.below(13) {
        11 | 12 => {
            name = "loop:host-retries-a-failed-callback";
            // the host calls the callback again after it failed (here: by running out of budget), inside the same host call
            let inner = rng.range(30, 400);
            m.functions.push(("work".into(), func(&["d"], vec![set("_", nil()), repeat(int(inner), None, comp(vec![set("_", read("d"))])), un("ret", read("d"))])));
            let n = rng.range(3, 40);
            main.push(repeat(int(n), Some("i"), comp(vec![set("_", native("retry1", vec![CardBody::Function("work".into()).into(), read("i")]))])));
            main.push(bin("while", int(1), comp(vec![set("_", native("retry1", vec![CardBody::Function("work".into()).into(), int(1)]))])));
        }
        9 | 10 => {
            name = "loop:callback-failure-swallowed-by-host";
            // the host function survives a callback that fails (here: by running out of budget) and the script goes on:
            // an exhausted budget stays exhausted
            let inner = rng.range(30, 400);
            m.functions.push(("work".into(), func(&["d"], vec![set("_", nil()), repeat(int(inner), None, comp(vec![set("_", read("d"))])), un("ret", read("d"))])));
            let n = rng.range(3, 60);
            main.push(set("acc", int(0)));
            main.push(repeat(int(n), Some("i"), comp(vec![set("_", native("try1", vec![CardBody::Function("work".into()).into(), read("i")])), set("acc", bin("add", read("acc"), int(1)))])));
            if rng.chance(1, 2) {
                main.push(bin("while", int(1), comp(vec![set("_", native("try1", vec![CardBody::Function("work".into()).into(), int(1)]))])));
            }
        }
        7 | 8 => {
            name = "loop:native-value-called-dynamically";
            // the host function is reached through a native function *value* (CallFunction, not CallNative) and
            // re-enters the script; each callback is short, their sum is not
            let n = rng.range(20, 120);
            let inner = rng.range(3, 30);
            m.functions.push(("work".into(), func(&["d"], vec![set("_", nil()), repeat(int(inner), None, comp(vec![set("_", read("d"))])), un("ret", read("d"))])));
            let nat: cao_lang::compiler::Card = CardBody::NativeFunction("apply1".into()).into();
            let callc = if rng.chance(1, 2) {
                dyncall(nat, vec![CardBody::Function("work".into()).into(), read("i")])
            } else {
                // the native value travels through a variable first
                main.push(set("nf", nat));
                dyncall(read("nf"), vec![CardBody::Function("work".into()).into(), read("i")])
            };
            main.push(repeat(int(n), Some("i"), comp(vec![set("_", callc)])));
            if rng.chance(1, 2) {
                main.push(bin("while", int(1), comp(vec![])));
            }
        }
        0 => {
            name = "loop:while-true";
            main.push(set("n", int(0)));
            main.push(bin("while", int(1), comp(vec![set("n", bin("add", read("n"), int(1)))])));
        }
        1 => {
            name = "loop:unbounded-recursion";
            m.functions.push(("f".into(), func(&["d"], vec![un("ret", call("f", vec![bin("add", read("d"), int(1))]))])));
            main.push(discard(call("f", vec![int(0)])));
        }
        2 => {
            name = "loop:mutual-recursion-dynamic";
            m.functions.push(("f".into(), func(&["d"], vec![un("ret", dyncall(CardBody::Function("g".into()).into(), vec![read("d")]))])));
            m.functions.push(("g".into(), func(&["d"], vec![un("ret", dyncall(CardBody::Function("f".into()).into(), vec![read("d")]))])));
            main.push(discard(call("f", vec![int(0)])));
        }
        3 => {
            name = "loop:inside-library-callback";
            // a key function that never returns, run by the native behind sorted / min / max
            let f = *rng.pick(&["sorted_by_key", "min_by_key", "max_by_key"]);
            main.push(set("t", CardBody::Array(vec![int(3), int(1), int(2)]).into()));
            main.push(discard(call(&format!("std.{f}"), vec![closure(&["k", "v"], vec![bin("while", int(1), comp(vec![])), un("ret", read("v"))]), read("t")])));
        }
        4 => {
            name = "loop:inside-host-reentry";
            // host -> script -> host -> script, the innermost loops forever
            m.functions.push(("spin".into(), func(&["d"], vec![set("_", nil()), bin("while", int(1), comp(vec![set("_", read("d"))])), un("ret", int(0))])));
            m.functions.push(("mid".into(), func(&["d"], vec![un("ret", native("apply1", vec![CardBody::Function("spin".into()).into(), read("d")]))])));
            let depth3 = rng.chance(1, 2);
            if depth3 {
                m.functions.push(("top".into(), func(&["d"], vec![un("ret", native("apply1", vec![CardBody::Function("mid".into()).into(), read("d")]))])));
            }
            main.push(discard(native("apply1", vec![CardBody::Function(if depth3 { "top" } else { "mid" }.into()).into(), int(1)])));
        }
        5 => {
            name = "loop:long-callbacks";
            // every callback is long but finite: the *sum* exceeds any small budget
            let n = rng.range(20, 200);
            main.push(set("t", CardBody::Array(vec![int(3), int(1), int(2), int(5), int(4)]).into()));
            main.push(discard(call(
                "std.sorted_by_key",
                vec![closure(&["k", "v"], vec![set("_", nil()), repeat(int(n), None, comp(vec![set("_", nil()), set("_", int(1))])), un("ret", read("v"))]), read("t")],
            )));
            main.push(bin("while", int(1), comp(vec![])));
        }
        _ => {
            name = "loop:closure-recursion";
            main.push(set("f", nil()));
            main.push(set("f", closure(&["d"], vec![un("ret", dyncall(read("f"), vec![read("d")]))])));
            main.push(discard(dyncall(read("f"), vec![int(1)])));
        }
    }
    m.functions.insert(0, ("main".into(), func(&[], main)));
    (m, name)
}

struct Run {
    outcome: VmOutcome,
    dispatched: u64,
    over_budget: bool,
}

fn run_budget(program: &CaoCompiledProgram, inputs: &[DVal], budget: u64) -> Run {
    let cfg = VmConfig { max_instr: budget, suppress_gc: true, memory_limit: Some(256 << 20), stack_size: None };
    let mut vm = new_vm(&cfg, inputs);
    let over = Rc::new(Cell::new(false));
    let o2 = over.clone();
    vm.runtime_data.verif.on_dispatch = Some(Box::new(move |rt, _| {
        if rt.verif.dispatched > budget && !o2.get() {
            o2.set(true);
            crate::runner::note(&format!("EVIDENCE overbudget dispatched={} budget={}", rt.verif.dispatched, budget));
            // stop the run: the budget did not
            rt.verif.abort_requested.set(true);
        }
    }));
    let r = vm.run(program);
    let outcome = observe(&vm, program, &r);
    vm.runtime_data.verif.on_dispatch = None;
    Run { outcome, dispatched: vm.runtime_data.verif.dispatched, over_budget: over.get() }
}

impl Engine for BudgetEngine {
    type Case = Case;
    fn name(&self) -> &'static str {
        "budget"
    }
    fn describe(&self, case: &Self::Case) -> serde_json::Value {
        let mut v = serde_json::to_value(case).unwrap_or(serde_json::Value::Null);
        if let Some(o) = v.as_object_mut() {
            o.insert("module".into(), serde_json::Value::String(crate::pp::module(&case.module, "")));
        }
        v
    }
    fn gen(&mut self, rng: &mut Prng, _tier: Tier) -> Case {
        let inputs = crate::e_prog::gen_inputs(rng);
        let (module, scenario): (Module, String) = match rng.below(10) {
            0..=3 => {
                let (m, n) = nonterminating(rng);
                (m, n.to_string())
            }
            4 | 5 => {
                let (m, n) = crate::gen_closure::gen_gc_scenario(rng);
                (m, n)
            }
            6 => crate::gen_closure::gen_closure_scenario(rng),
            _ => {
                let mut g = ProgGen::new(rng, GenCfg { closures: 15, stdlib: 12, reentry: 6, ill_typed: 2, ..GenCfg::core() });
                (g.gen_program(), "random".to_string())
            }
        };
        let extra_budgets = (0..3).map(|_| rng.range(1, 400) as u64).collect();
        Case { module, inputs, scenario, extra_budgets, only_budget: None }
    }
    fn run(&mut self, case: &Case, obs: &mut Obs) -> Verdict {
        if std::env::var("CAOVERIF_PP").is_ok() {
            eprintln!("{}", crate::pp::module(&case.module, ""));
        }
        let program = match compile_module(&case.module) {
            Ok(p) => p,
            Err(_) => return Verdict::Skip { reason: "does not compile".into() },
        };
        obs.inc(&format!("scenario:{}", case.scenario));
        let big = 300_000u64;
        let reference = run_budget(&program, &case.inputs, big);
        let terminates = !reference.outcome.result.contains("Timeout");
        let need = reference.dispatched;
        let mut budgets: Vec<u64> = match case.only_budget {
            Some(b) => vec![b],
            None => {
                let mut b = vec![1, 2, 3, 10, 50];
                b.extend(case.extra_budgets.iter().copied());
                if terminates {
                    b.extend([need.saturating_sub(1).max(1), need.max(1), need + 1, need + 2, 2 * need + 1]);
                    // "the same for every sufficient budget", however large
                    b.extend([u32::MAX as u64, (1u64 << 63) - 1, 1u64 << 63, (1u64 << 63) + 1, u64::MAX - 1, u64::MAX]);
                    obs.inc("budgets_around_need");
                }
                b
            }
        };
        budgets.sort();
        budgets.dedup();
        if reference.over_budget {
            return Verdict::violation("C03:over-budget", format!("budget {big}: {} instructions dispatched", reference.dispatched));
        }
        for n in budgets {
            let r = run_budget(&program, &case.inputs, n);
            obs.inc("budgeted_runs");
            if r.outcome.max_reentry_depth >= 2 {
                obs.inc("runs_with_reentry_depth>=2");
            }
            if r.over_budget || r.dispatched > n {
                return Verdict::violation(
                    "C03:over-budget",
                    format!("budget {n}: the interpreter dispatched {} instructions (re-entry depth {}) and had not stopped", r.dispatched, r.outcome.max_reentry_depth),
                );
            }
            let timed_out = r.outcome.result.contains("Timeout");
            if timed_out {
                obs.inc("runs_ending_in_Timeout");
            }
            if terminates && need < n {
                // a sufficient budget must not change anything
                if let Some((what, d)) = outcomes_differ(&r.outcome, &reference.outcome) {
                    return Verdict::violation(format!("C03:sufficient-budget-changes-outcome:{what}"), format!("the program needs {need} instructions; with budget {n}: {d}"));
                }
                obs.inc("runs_with_sufficient_budget");
            } else if !timed_out {
                // the budget is too small: the run must stop with Timeout (or fail earlier for another reason, in the same way as the reference)
                let same_error = r.outcome.result == reference.outcome.result && r.outcome.result != "Ok";
                if !same_error {
                    return Verdict::violation(
                        "C03:no-timeout",
                        format!("the program needs {} instructions, budget {n}, but the run ended with {} after {} instructions", if terminates { need.to_string() } else { "unboundedly many".into() }, r.outcome.result, r.dispatched),
                    );
                }
            }
        }
        // ---- every run gets its own budget, also on a VM whose previous run failed (no clear in between)
        if case.only_budget.is_none() {
            let small = 1 + case.extra_budgets.first().copied().unwrap_or(50) % 200;
            let cfg = VmConfig { max_instr: small, suppress_gc: true, memory_limit: Some(256 << 20), stack_size: None };
            let mut vm = new_vm(&cfg, &case.inputs);
            // 1. a run that is cut short (Timeout) or fails for its own reasons
            let first = vm.run(&program);
            // 2. the same program again with the full budget: what the reference run gave
            vm.max_instr = big;
            let d0 = vm.runtime_data.verif.dispatched;
            let again = vm.run(&program);
            let used = vm.runtime_data.verif.dispatched - d0;
            let out = observe(&vm, &program, &again);
            if first.is_err() {
                obs.inc("reruns_after_failed_run");
                if terminates && reference.outcome.result == "Ok" && out.result.contains("Timeout") {
                    return Verdict::violation(
                        "C03:rerun-after-failure:no-budget",
                        format!("after a run that ended with {:?}, the same program with budget {big} (it needs {need}) ends with Timeout after {used} instructions", first.as_ref().err().map(|e| crate::dval::err_kind(&e.payload))),
                    );
                }
            }
            // 3. a failed run with a large budget must not lend its leftover to a later run with a small one
            vm.max_instr = small;
            let d1 = vm.runtime_data.verif.dispatched;
            let _ = vm.run(&program);
            let used3 = vm.runtime_data.verif.dispatched - d1;
            if used3 > small {
                return Verdict::violation(
                    "C03:rerun-after-failure:over-budget",
                    format!("a run with budget {small} on a VM whose earlier runs ended with {} / {} dispatched {used3} instructions", if first.is_ok() { "Ok" } else { "an error" }, out.result),
                );
            }
        }
        obs.nontrivial = true;
        Verdict::Ok
    }
    fn shrink(&self, case: &Case) -> Vec<Case> {
        shrink_module(&case.module).into_iter().map(|m| Case { module: m, ..case.clone() }).collect()
    }
}
