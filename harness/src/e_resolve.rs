//! C08: name resolution, argument binding, caller-local isolation and return values over generated module trees.
//! Every function logs a unique tag, so the host-call log identifies exactly which bodies ran.
use crate::e_prog::{compare_outcomes, Case};
use crate::gen::*;
use crate::prng::Prng;
use crate::refsem::{resolve_name, Interp};
use crate::runner::{Engine, Obs, Tier, Verdict};
use crate::shrink::shrink_module;
use crate::vmrun::{native_specs, run_module, VmConfig};
use cao_lang::compiler::{Card, CardBody, CompilationErrorPayload, Function, Module};
use std::collections::{BTreeSet, HashMap};

pub struct ResolveEngine {}

const FN_NAMES: [&str; 4] = ["f", "g", "h", "run"];
const MOD_NAMES: [&str; 4] = ["a", "b", "f", "util"];

struct Site {
    caller: Vec<String>,
    name: String,
}

fn is_name_valid(name: &str) -> bool {
    !name.is_empty() && name != "super" && name.chars().all(|c| c.is_alphanumeric() || c == '_')
}

/// everything the rules reject, as the set of acceptable error kinds (empty = must compile)
fn expected_errors(root: &Module, sites: &[Site], by_name: &HashMap<String, usize>, imports: &HashMap<Vec<String>, Vec<String>>, recursion_limit: usize) -> BTreeSet<&'static str> {
    let mut errs = BTreeSet::new();
    fn walk(m: &Module, depth: usize, limit: usize, errs: &mut BTreeSet<&'static str>, is_root: bool) {
        if depth >= limit {
            errs.insert("RecursionLimitReached");
            return;
        }
        let mut seen = BTreeSet::new();
        for (n, _) in m.functions.iter() {
            if !is_name_valid(n) {
                errs.insert("BadFunctionName");
            }
            if !seen.insert(n.clone()) {
                errs.insert("DuplicateName");
            }
        }
        let mut seen = BTreeSet::new();
        for (n, sm) in m.submodules.iter() {
            if !is_name_valid(n) {
                errs.insert("BadModuleName");
            }
            if !seen.insert(n.clone()) || (is_root && n == "std") {
                errs.insert("DuplicateModule");
            }
            walk(sm, depth + 1, limit, errs, false);
        }
        let mut last = BTreeSet::new();
        for imp in m.imports.iter() {
            match imp.rsplit_once('.') {
                None => {
                    errs.insert("BadImport");
                }
                Some((_, l)) => {
                    if !last.insert(l.to_string()) {
                        errs.insert("AmbigousImport");
                    }
                }
            }
        }
    }
    walk(root, 0, recursion_limit, &mut errs, true);
    if !root.functions.iter().any(|(n, _)| n == "main") {
        errs.insert("NoMain");
    }
    for s in sites {
        if resolve_name(by_name, imports, &s.caller, &s.name).is_none() {
            errs.insert("InvalidJump");
        }
    }
    errs
}

/// the variant name, taken from the Debug form so that a variant added to the crate later does not stop the harness
/// from compiling
fn err_name(e: &CompilationErrorPayload) -> String {
    let d = format!("{e:?}");
    d.split(|c: char| !c.is_alphanumeric()).next().unwrap_or("?").to_string()
}

fn collect_sites(m: &Module, path: &mut Vec<String>, out: &mut Vec<Site>) {
    fn cards(c: &Card, path: &[String], out: &mut Vec<Site>) {
        match &c.body {
            CardBody::Call(j) => out.push(Site { caller: path.to_vec(), name: j.function_name.clone() }),
            CardBody::Function(n) => out.push(Site { caller: path.to_vec(), name: n.clone() }),
            _ => {}
        }
        for ch in c.iter_children() {
            cards(ch, path, out);
        }
    }
    for (_, f) in m.functions.iter() {
        for c in f.cards.iter() {
            cards(c, path, out);
        }
    }
    for (n, sm) in m.submodules.iter() {
        path.push(n.clone());
        collect_sites(sm, path, out);
        path.pop();
    }
}

/// would an import path read as *absolute* (from the root) designate something else than the relative reading?
fn ambiguous_import_reading(root: &Module, by_name: &HashMap<String, usize>) -> bool {
    fn walk(m: &Module, path: &mut Vec<String>, by_name: &HashMap<String, usize>, module_paths: &BTreeSet<String>) -> bool {
        if !path.is_empty() {
            for imp in m.imports.iter() {
                if imp.starts_with("super.") {
                    continue;
                }
                // absolute reading designates a function or module, and differs from the relative reading
                let rel = format!("{}.{}", path.join("."), imp);
                let abs_exists = by_name.contains_key(imp) || module_paths.contains(imp);
                let rel_exists = by_name.contains_key(&rel) || module_paths.contains(&rel);
                if abs_exists && (!rel_exists || rel != *imp) {
                    return true;
                }
            }
        }
        for (n, sm) in m.submodules.iter() {
            path.push(n.clone());
            let r = walk(sm, path, by_name, module_paths);
            path.pop();
            if r {
                return true;
            }
        }
        false
    }
    let mut module_paths = BTreeSet::new();
    fn mods(m: &Module, path: &mut Vec<String>, out: &mut BTreeSet<String>) {
        for (n, sm) in m.submodules.iter() {
            path.push(n.clone());
            out.insert(path.join("."));
            mods(sm, path, out);
            path.pop();
        }
    }
    mods(root, &mut Vec::new(), &mut module_paths);
    walk(root, &mut Vec::new(), by_name, &module_paths)
}

struct TreeGen<'r> {
    rng: &'r mut Prng,
    arity: usize,
    next_tag: i64,
    all_fn_paths: Vec<String>,
    all_mod_paths: Vec<String>,
}

impl<'r> TreeGen<'r> {
    fn gen_shape(&mut self, depth: usize, max_depth: usize, path: &mut Vec<String>) -> Module {
        let mut m = Module::default();
        let nf = if depth == 0 { self.rng.range(0, 3) } else { self.rng.range(0, 4) } as usize;
        let mut names: Vec<&str> = FN_NAMES.to_vec();
        self.rng.shuffle(&mut names);
        for n in names.into_iter().take(nf) {
            m.functions.push((n.to_string(), Function::default()));
            let mut p = path.clone();
            p.push(n.to_string());
            self.all_fn_paths.push(p.join("."));
        }
        if depth < max_depth {
            let ns = self.rng.below(3);
            let mut names: Vec<&str> = MOD_NAMES.to_vec();
            self.rng.shuffle(&mut names);
            for n in names.into_iter().take(ns) {
                path.push(n.to_string());
                self.all_mod_paths.push(path.join("."));
                let sm = self.gen_shape(depth + 1, max_depth, path);
                path.pop();
                m.submodules.push((n.to_string(), sm));
            }
        }
        m
    }

    /// a name to call from module `path`: mostly something meant to resolve, sometimes junk
    fn call_name(&mut self, path: &[String], imports: &[String]) -> String {
        let pick = self.rng.below(12);
        match pick {
            0 | 1 | 2 => {
                // absolute path of some function
                if self.all_fn_paths.is_empty() {
                    return "f".into();
                }
                self.rng.pick(&self.all_fn_paths).clone()
            }
            3 | 4 | 5 => {
                // relative: strip the caller's module prefix from a function below it, or a sibling
                let prefix = if path.is_empty() { String::new() } else { format!("{}.", path.join(".")) };
                let below: Vec<String> = self.all_fn_paths.iter().filter(|p| p.starts_with(&prefix)).map(|p| p[prefix.len()..].to_string()).collect();
                if below.is_empty() {
                    return self.rng.pick(&FN_NAMES).to_string();
                }
                self.rng.pick(&below).clone()
            }
            6 | 7 => {
                // through a function import: its last segment
                let f: Vec<&String> = imports.iter().collect();
                if f.is_empty() {
                    return self.rng.pick(&FN_NAMES).to_string();
                }
                let imp = self.rng.pick(&f).to_string();
                imp.rsplit_once('.').map(|(_, l)| l.to_string()).unwrap_or(imp)
            }
            8 | 9 => {
                // through a module import: alias.function
                let f: Vec<&String> = imports.iter().collect();
                if f.is_empty() {
                    return self.rng.pick(&FN_NAMES).to_string();
                }
                let imp = self.rng.pick(&f).to_string();
                let alias = imp.rsplit_once('.').map(|(_, l)| l.to_string()).unwrap_or(imp);
                format!("{alias}.{}", self.rng.pick(&FN_NAMES))
            }
            10 => self.rng.pick(&FN_NAMES).to_string(),
            _ => {
                if self.rng.chance(1, 3) {
                    "nosuch".into()
                } else {
                    format!("{}.{}", self.rng.pick(&MOD_NAMES), self.rng.pick(&FN_NAMES))
                }
            }
        }
    }

    fn gen_imports(&mut self, path: &[String]) -> Vec<String> {
        let mut out = Vec::new();
        for _ in 0..self.rng.below(4) {
            let prefix = if path.is_empty() { String::new() } else { format!("{}.", path.join(".")) };
            let kind = self.rng.below(10);
            let imp = match kind {
                0..=2 => {
                    // function below this module, relative
                    let below: Vec<String> = self.all_fn_paths.iter().filter(|p| p.starts_with(&prefix) && p[prefix.len()..].contains('.')).map(|p| p[prefix.len()..].to_string()).collect();
                    if below.is_empty() {
                        continue;
                    }
                    self.rng.pick(&below).clone()
                }
                3 | 4 => {
                    // module below this module, relative
                    let below: Vec<String> = self.all_mod_paths.iter().filter(|p| p.starts_with(&prefix) && p[prefix.len()..].contains('.')).map(|p| p[prefix.len()..].to_string()).collect();
                    if below.is_empty() {
                        continue;
                    }
                    self.rng.pick(&below).clone()
                }
                5 | 6 | 7 => {
                    // walk up with super.
                    if path.is_empty() {
                        continue;
                    }
                    let up = self.rng.range(1, path.len() as i64) as usize;
                    let base: Vec<String> = path[..path.len() - up].to_vec();
                    let bprefix = if base.is_empty() { String::new() } else { format!("{}.", base.join(".")) };
                    let targets: Vec<String> = self
                        .all_fn_paths
                        .iter()
                        .chain(self.all_mod_paths.iter())
                        .filter(|p| p.starts_with(&bprefix) && !p[bprefix.len()..].is_empty())
                        .map(|p| p[bprefix.len()..].to_string())
                        .collect();
                    if targets.is_empty() {
                        continue;
                    }
                    format!("{}{}", "super.".repeat(up), self.rng.pick(&targets))
                }
                8 => {
                    if self.rng.chance(1, 2) {
                        "nodot".to_string()
                    } else {
                        format!("{}super.x", "super.".repeat(path.len() + self.rng.below(2)))
                    }
                }
                _ => format!("{}.{}", self.rng.pick(&MOD_NAMES), self.rng.pick(&FN_NAMES)),
            };
            out.push(imp);
        }
        out
    }

    fn fill(&mut self, m: &mut Module, path: &mut Vec<String>, is_root: bool) {
        m.imports = self.gen_imports(path);
        let imports = m.imports.clone();
        let params: Vec<String> = (0..self.arity).map(|i| ["d", "u", "w"][i].to_string()).collect();
        for (name, f) in m.functions.iter_mut() {
            if is_root && name == "main" {
                continue;
            }
            let tag = self.next_tag;
            self.next_tag += 1;
            let mut cards = vec![set("_", nil())];
            // observe every parameter
            let mut largs = vec![int(tag)];
            for p in params.iter().skip(1) {
                largs.push(read(p));
            }
            while largs.len() < 3 {
                largs.push(int(0));
            }
            cards.push(discard(native("log3", largs)));
            cards.push(set("mine", int(tag * 7)));
            let n_sites = self.rng.below(3);
            for _ in 0..n_sites {
                let callee = self.call_name(path, &imports);
                let mut args = vec![bin("sub", read("d"), int(1))];
                for k in 1..self.arity {
                    args.push(int(tag * 100 + k as i64));
                }
                let c = if self.rng.chance(1, 3) { dyncall(CardBody::Function(callee).into(), args) } else { call(&callee, args) };
                cards.push(bin("iftrue", bin("less", int(0), read("d")), comp(vec![discard(native("log2", vec![int(tag), c]))])));
                // the caller's locals survive the call
                cards.push(discard(native("log2", vec![read("mine"), read("d")])));
            }
            if self.rng.chance(3, 4) {
                cards.push(un("ret", int(tag + 1000)));
            }
            *f = Function { arguments: params.clone(), cards };
        }
        for (n, sm) in m.submodules.iter_mut() {
            path.push(n.clone());
            self.fill(sm, path, false);
            path.pop();
        }
    }
}

pub fn gen_tree(rng: &mut Prng) -> Module {
    let arity = rng.range(1, 3) as usize;
    let mut g = TreeGen { rng, arity, next_tag: 1, all_fn_paths: vec![], all_mod_paths: vec![] };
    let max_depth = g.rng.range(0, 4) as usize;
    let mut root = g.gen_shape(0, max_depth, &mut Vec::new());
    // rare structural faults
    match g.rng.below(40) {
        0 => root.submodules.push(("std".into(), Module::default())),
        1 => {
            if let Some((n, _)) = root.functions.first().cloned() {
                root.functions.push((n, Function::default()));
            }
        }
        2 => {
            if let Some((n, m)) = root.submodules.first().cloned() {
                root.submodules.push((n, m));
            }
        }
        3 => root.functions.push((g.rng.pick(&["", "a.b", "super", "sp ace", "ok_1"]).to_string(), Function::default())),
        4 => {
            if let Some((_, sm)) = root.submodules.first_mut() {
                if let Some((n, _)) = sm.functions.first().cloned() {
                    sm.functions.push((n, Function::default()));
                }
            }
        }
        5 => {
            // deeper than the recursion limit (64)
            let mut m = Module::default();
            m.functions.push(("f".into(), Function::default()));
            for _ in 0..g.rng.range(62, 66) {
                let mut outer = Module::default();
                outer.submodules.push(("a".into(), m));
                m = outer;
            }
            root.submodules.push(("deep".into(), m));
        }
        6 => root.submodules.push((g.rng.pick(&["", "a.b", "super"]).to_string(), Module::default())),
        _ => {}
    }
    g.fill(&mut root, &mut Vec::new(), true);
    // main
    let imports = root.imports.clone();
    let mut cards = vec![set("_", nil())];
    let n_sites = g.rng.range(1, 4);
    for _ in 0..n_sites {
        let callee = g.call_name(&[], &imports);
        let mut args = vec![int(g.rng.range(0, 2))];
        for k in 1..arity {
            args.push(int(9000 + k as i64));
        }
        let c = if g.rng.chance(1, 3) { dyncall(CardBody::Function(callee).into(), args) } else { call(&callee, args) };
        cards.push(discard(native("log1", vec![c])));
    }
    if !g.rng.chance(1, 60) {
        let pos = g.rng.below(root.functions.len() + 1);
        root.functions.insert(pos, ("main".to_string(), Function { arguments: vec![], cards }));
    }
    root
}

/// root module: main (index 0) calls function #f; function #g has k+1 cards, the last of which returns 999
pub fn label_collision_module(f: usize, g: usize, k: usize) -> Module {
    let mut m = Module::default();
    let main = vec![set("_", nil()), discard(native("log3", vec![int(f as i64), call(&format!("f{f}"), vec![]), int(0)]))];
    m.functions.push(("main".into(), Function { arguments: vec![], cards: main }));
    for i in 1..=g.max(f) {
        let cards = if i == g {
            let mut c: Vec<Card> = (0..k).map(|x| set("_", int(x as i64))).collect();
            c.push(un("ret", int(999)));
            c
        } else {
            vec![un("ret", int(i as i64))]
        };
        m.functions.push((format!("f{i}"), Function { arguments: vec![], cards }));
    }
    m
}

/// a chain of nested modules m1.m2...mD, each with a function `t` that logs its level; the innermost module imports
/// `t` (or a sibling module) from k levels up with k `super.` segments, for every k up to the depth
pub fn deep_super_module(rng: &mut Prng) -> Module {
    let depth = rng.range(3, 10) as usize;
    // (the root module has no `t` and no `side`: a name that exists there would be found as an absolute path first)
    let k = rng.range(1, depth as i64 - 1) as usize;
    let via_module = rng.chance(1, 3);
    // build inside out
    let mut inner = Module::default();
    let callee = if via_module { "side.t" } else { "t" };
    inner.imports.push(format!("{}{}", "super.".repeat(k), if via_module { "side" } else { "t" }));
    inner.functions.push(("run".into(), Function { arguments: vec![], cards: vec![un("ret", call(callee, vec![]))] }));
    let mut path: Vec<String> = Vec::new();
    for level in (0..depth).rev() {
        // level `level` is the module that contains `inner` (root = level 0)
        let mut m = Module::default();
        if level > 0 {
            m.functions.push(("t".into(), Function { arguments: vec![], cards: vec![setg("sink", native("log1", vec![int(level as i64)])), un("ret", int(level as i64))] }));
            let mut side = Module::default();
            side.functions.push(("t".into(), Function { arguments: vec![], cards: vec![setg("sink", native("log1", vec![int(100 + level as i64)])), un("ret", int(100 + level as i64))] }));
            m.submodules.push(("side".into(), side));
        }
        let name = format!("m{}", level + 1);
        m.submodules.push((name.clone(), inner));
        path.insert(0, name);
        inner = m;
    }
    let mut root = inner;
    let target = format!("{}.run", path.join("."));
    root.functions.insert(0, ("main".into(), Function { arguments: vec![], cards: vec![set("_", nil()), discard(native("log2", vec![int(k as i64), call(&target, vec![])]))] }));
    root
}

/// functions that own nothing on the value stack (no parameters, no locals) and end in a conditional card: when the
/// condition is false the call returns nil and nothing else runs - in particular not the function compiled after it
pub fn bare_functions_module(rng: &mut Prng) -> Module {
    let mut m = Module::default();
    let n = rng.range(2, 6) as usize;
    let mut main = vec![set("_", nil())];
    let mut fns: Vec<(String, Function)> = Vec::new();
    for i in 0..n {
        let flag = format!("flag{i}");
        main.push(setg(&flag, if rng.chance(1, 2) { int(1) } else { int(0) }));
        let tag = 100 + i as i64;
        let last: Card = match rng.below(4) {
            0 => bin("iftrue", read(&flag), un("ret", int(tag))),
            1 => bin("iffalse", read(&flag), un("ret", int(tag))),
            2 => ifelse(read(&flag), un("ret", int(tag)), comp(vec![])),
            _ => bin("iftrue", read(&flag), comp(vec![setg("sink", native("log1", vec![int(tag)])), un("ret", int(tag))])),
        };
        let mut cards = Vec::new();
        if rng.chance(1, 2) {
            cards.push(setg("sink", native("log1", vec![int(tag + 1000)])));
        }
        cards.push(last);
        fns.push((format!("maybe{i}"), Function { arguments: vec![], cards }));
        // a bystander right behind it whose body is observable
        fns.push((format!("by{i}"), Function { arguments: vec![], cards: vec![setg("sink", native("log1", vec![int(tag + 2000)])), un("ret", int(tag + 3000))] }));
    }
    for i in 0..n {
        let c = if rng.chance(1, 3) { dyncall(CardBody::Function(format!("maybe{i}")).into(), vec![]) } else { call(&format!("maybe{i}"), vec![]) };
        main.push(discard(native("log2", vec![int(i as i64), c])));
    }
    if rng.chance(1, 2) {
        m.functions.push(("main".into(), Function { arguments: vec![], cards: main }));
        m.functions.extend(fns);
    } else {
        m.functions.extend(fns);
        m.functions.push(("main".into(), Function { arguments: vec![], cards: main }));
    }
    m
}

impl Engine for ResolveEngine {
    type Case = Case;
    fn name(&self) -> &'static str {
        "resolve"
    }
    fn describe(&self, case: &Self::Case) -> serde_json::Value {
        let mut v = serde_json::to_value(case).unwrap_or(serde_json::Value::Null);
        if let Some(o) = v.as_object_mut() {
            o.insert("module".into(), serde_json::Value::String(crate::pp::module(&case.module, "")));
        }
        v
    }
    fn gen(&mut self, rng: &mut Prng, _tier: Tier) -> Case {
        if rng.chance(1, 400) {
            // labels are keyed by 32-bit handles; every card gets one as well as every function. These (function,
            // big function, card) triples are the smallest ones whose handles are equal under the hash the crate
            // used at the pinned commit and under the one it uses after the repair (found by exhaustive search)
            // (the third triple has the card *before* the function: function 873's card 104 is compiled first)
            let (f, g, k) = *rng.pick(&[(210usize, 1003usize, 1302usize), (968, 1437, 1051), (1183, 873, 104)]);
            return Case { module: label_collision_module(f, g, k), inputs: vec![], scenario: "label-handle-collision".into() };
        }
        if rng.chance(1, 20) {
            return Case { module: bare_functions_module(rng), inputs: vec![], scenario: "functions-without-parameters-or-locals".into() };
        }
        if rng.chance(1, 25) {
            return Case { module: deep_super_module(rng), inputs: vec![], scenario: "long-super-chains".into() };
        }
        Case { module: gen_tree(rng), inputs: vec![], scenario: "module-tree".into() }
    }
    fn run(&mut self, case: &Case, obs: &mut Obs) -> Verdict {
        if std::env::var("CAOVERIF_PP").is_ok() {
            eprintln!("{}", crate::pp::module(&case.module, ""));
        }
        let interp = Interp::new(&case.module, native_specs(), vec![]);
        let mut sites = Vec::new();
        collect_sites(&case.module, &mut Vec::new(), &mut sites);
        // imports live inside the interpreter; rebuild them here for the static analysis
        let mut imports: HashMap<Vec<String>, Vec<String>> = HashMap::new();
        fn imps(m: &Module, path: &mut Vec<String>, out: &mut HashMap<Vec<String>, Vec<String>>) {
            out.insert(path.clone(), m.imports.clone());
            for (n, sm) in m.submodules.iter() {
                path.push(n.clone());
                imps(sm, path, out);
                path.pop();
            }
        }
        imps(&case.module, &mut Vec::new(), &mut imports);
        if ambiguous_import_reading(&case.module, &interp.by_name) {
            return Verdict::Skip { reason: "an import path designates different things when read as absolute or as relative".into() };
        }
        let expected = expected_errors(&case.module, &sites, &interp.by_name, &imports, 64);
        for s in &sites {
            // which resolution step designates the target (coverage only)
            let step = if interp.by_name.contains_key(&s.name) {
                "absolute"
            } else if interp.by_name.contains_key(&format!("{}.{}", s.caller.join("."), s.name)) {
                "relative"
            } else if resolve_name(&interp.by_name, &imports, &s.caller, &s.name).is_some() {
                if s.name.contains('.') {
                    "module-import"
                } else {
                    "function-import"
                }
            } else {
                "unresolved"
            };
            obs.inc(&format!("site:{step}"));
        }
        let rf = if expected.is_empty() { Some(interp.run_main()) } else { None };
        let cfg = VmConfig::default();
        let r = run_module(&case.module, &cfg, &[]);
        match (r, expected.is_empty()) {
            (Err(e), true) => {
                let k = err_name(&e.payload);
                Verdict::violation(format!("C08:rejected-valid:{k}"), format!("every name resolves and no rule is broken, but compilation failed: {e}"))
            }
            (Ok(_), false) => {
                let list: Vec<&str> = expected.iter().copied().collect();
                Verdict::violation(format!("C08:accepted-invalid:{}", list.join("+")), format!("the module breaks {list:?} but it compiled"))
            }
            (Err(e), false) => {
                let k = err_name(&e.payload);
                obs.inc(&format!("rejected:{k}"));
                let ok = expected.contains(k.as_str())
                    || expected.contains("BadModuleName")
                    || (k == "SuperLimitReached" && expected.contains("InvalidJump"));
                if !ok {
                    let list: Vec<&str> = expected.iter().copied().collect();
                    return Verdict::violation(format!("C08:wrong-error:{k}:expected={}", list.join("+")), format!("the module breaks {list:?} but the compiler reports {e}"));
                }
                obs.nontrivial = true;
                Verdict::Ok
            }
            (Ok((vm, _)), true) => {
                let rf = rf.unwrap();
                if let Some(u) = &rf.unspecified {
                    return Verdict::Skip { reason: format!("unspecified: {}", crate::runner::normalise_msg(u)) };
                }
                if let Some(i) = &rf.inconclusive {
                    return Verdict::Inconclusive { reason: i.clone() };
                }
                obs.add("bodies_run", rf.log.iter().filter(|(n, _)| n == "log3").count() as u64);
                obs.inc("accepted");
                if let Some((sig, detail)) = compare_outcomes(&vm, &rf) {
                    return Verdict::violation(format!("C08:{sig}"), detail);
                }
                if rf.log.len() >= 3 {
                    obs.nontrivial = true;
                }
                Verdict::Ok
            }
        }
    }
    fn shrink(&self, case: &Case) -> Vec<Case> {
        shrink_module(&case.module).into_iter().map(|m| Case { module: m, inputs: vec![], scenario: case.scenario.clone() }).collect()
    }
}
