//! C04: compiling and running are total. Crash / panic / hang monitors around hostile inputs.
//! Part A: arbitrary modules (not well-scoped) through the JSON/YAML loaders and the compiler.
//! Part B: well-scoped programs run under hostile limits (tiny stacks, tiny heaps, tiny budgets).
use crate::dval::err_kind;
use crate::e_module::gen_card;
use crate::gen::*;
use crate::prng::Prng;
use crate::runner::{Engine, Obs, Tier, Verdict};
use crate::shrink::shrink_module;
use crate::vmrun::{new_vm, VmConfig};
use cao_lang::compiler::{compile, Card, CardBody, CompileOptions, Function, Module};
use serde::{Deserialize, Serialize};

#[derive(Clone, Serialize, Deserialize)]
pub struct Case {
    pub kind: String,
    pub module: Module,
    /// serialise and reload through this loader before compiling ("" = none)
    pub loader: String,
    pub value_stack: usize,
    pub call_stack: usize,
    pub memory_limit: usize,
    pub budget: u64,
    pub gc: bool,
}

pub struct TotalEngine {}

const ODD_NAMES: [&str; 12] = ["", "a.b", "super", "sp ace", "ünï", "main", "f", "std", "ppkttia", "x", "_", "0"];

fn odd_name(rng: &mut Prng) -> String {
    rng.pick(&ODD_NAMES).to_string()
}

fn arbitrary_module(rng: &mut Prng, depth: usize) -> Module {
    let mut m = Module::default();
    let nf = rng.below(4);
    for i in 0..nf {
        let name = if rng.chance(1, 5) { odd_name(rng) } else { format!("f{i}") };
        let na = rng.below(5);
        let arguments = (0..na).map(|k| if rng.chance(1, 6) { odd_name(rng) } else { format!("p{k}") }).collect();
        let nc = rng.below(6);
        let cards = (0..nc)
            .map(|_| {
                let d = rng.below(5);
                gen_card(rng, d, None)
            })
            .collect();
        m.functions.push((name, Function { arguments, cards }));
    }
    for _ in 0..rng.below(3) {
        m.imports.push(match rng.below(5) {
            0 => "nodot".to_string(),
            1 => "super.super.super.x".to_string(),
            2 => "a.f".to_string(),
            3 => "std.map".to_string(),
            _ => format!("{}.{}", odd_name(rng), odd_name(rng)),
        });
    }
    if depth > 0 {
        for _ in 0..rng.below(3) {
            let name = if rng.chance(1, 4) { odd_name(rng) } else { rng.pick(&["a", "b", "lib"]).to_string() };
            m.submodules.push((name, arbitrary_module(rng, depth - 1)));
        }
    }
    m
}

fn with_main(mut m: Module, cards: Vec<Card>) -> Module {
    m.functions.retain(|(n, _)| n != "main");
    m.functions.insert(0, ("main".into(), Function { arguments: vec![], cards }));
    m
}

fn limit_case(rng: &mut Prng) -> (Module, &'static str) {
    let mut m = Module::default();
    match rng.below(10) {
        9 => {
            // a closure that captures the locals of *two* enclosing functions: more captured variables than one
            // function can have locals (the upvalue list has its own limit)
            let n1 = rng.range(100, 250);
            let n2 = rng.range(100, 250);
            let mut cards: Vec<Card> = (0..n1).map(|i| set(format!("a{i}"), int(i))).collect();
            let mut mid: Vec<Card> = vec![set("_", nil())];
            mid.extend((0..n2).map(|i| set(format!("b{i}"), int(i))));
            let mut inner: Vec<Card> = vec![set("_", nil())];
            inner.extend((0..n1).map(|i| discard(read(format!("a{i}")))));
            inner.extend((0..n2).map(|i| discard(read(format!("b{i}")))));
            mid.push(set("c", closure(&[], inner)));
            mid.push(discard(dyncall(read("c"), vec![])));
            cards.push(set("m", closure(&[], mid)));
            cards.push(discard(dyncall(read("m"), vec![])));
            (with_main(m, cards), "many-upvalues-nested")
        }
        0 => {
            // many distinct locals in one function (limit 255)
            let n = rng.range(250, 260);
            let cards = (0..n).map(|i| set(format!("v{i}"), int(i))).collect();
            (with_main(m, cards), "many-locals")
        }
        1 => {
            // many distinct globals (handle table growth through `entry`)
            let n = rng.range(14, 80);
            let mut cards: Vec<Card> = (0..n).map(|i| setg(&format!("g{i}"), int(i))).collect();
            cards.push(discard(native("log1", vec![read(format!("g{}", n - 1))])));
            (with_main(m, cards), "many-globals")
        }
        2 => {
            // deep expression nesting
            let d = rng.range(20, 120);
            let mut c = int(1);
            for _ in 0..d {
                c = if rng.chance(1, 2) { un("not", c) } else { bin("add", c, int(1)) };
            }
            (with_main(m, vec![discard(c)]), "deep-expression")
        }
        3 => {
            // deep statement nesting
            let d = rng.range(20, 100);
            let mut c: Card = discard(int(1));
            for _ in 0..d {
                c = match rng.below(3) {
                    0 => bin("iftrue", int(1), c),
                    1 => comp(vec![c]),
                    _ => repeat(int(1), None, c),
                };
            }
            (with_main(m, vec![set("_", nil()), c]), "deep-statement")
        }
        4 => {
            // many captured variables in one closure
            let n = rng.range(3, 260);
            let mut cards: Vec<Card> = (0..n.min(250)).map(|i| set(format!("v{i}"), int(i))).collect();
            let body: Vec<Card> = (0..n.min(250)).map(|i| discard(read(format!("v{i}")))).collect();
            let mut b = vec![set("_", nil())];
            b.extend(body);
            cards.push(set("c", closure(&[], b)));
            (with_main(m, cards), "many-upvalues")
        }
        5 => {
            // many functions
            let n = rng.range(100, 400);
            for i in 0..n {
                m.functions.push((format!("fn{i}"), Function { arguments: vec![], cards: vec![un("ret", int(i))] }));
            }
            let cards = vec![set("_", nil()), discard(call(&format!("fn{}", n - 1), vec![]))];
            (with_main(m, cards), "many-functions")
        }
        6 => {
            // names that hash to the reserved handle 0
            let cards = vec![setg("ppkttia", int(1)), discard(native("log1", vec![read("ppkttia")])), discard(native("ppkttia", vec![]))];
            (with_main(m, cards), "zero-handle-names")
        }
        7 => {
            // long function body
            let n = rng.range(500, 3000);
            let mut cards = vec![set("_", nil())];
            cards.extend((0..n).map(|i| discard(int(i))));
            (with_main(m, cards), "long-body")
        }
        _ => {
            // module tree at / over the recursion limit
            let mut inner = Module::default();
            inner.functions.push(("f".into(), Function::default()));
            for _ in 0..rng.range(60, 70) {
                let mut outer = Module::default();
                outer.submodules.push(("a".into(), inner));
                inner = outer;
            }
            m.submodules.push(("deep".into(), inner));
            (with_main(m, vec![]), "deep-modules")
        }
    }
}

fn hostile_program(rng: &mut Prng) -> (Module, &'static str) {
    if rng.chance(1, 8) {
        // loops that never end by themselves, through every route the interpreter can be re-entered by
        return crate::e_budget::nonterminating(rng);
    }
    if rng.chance(1, 12) {
        // every arithmetic / comparison card on the extreme operands
        let vals = |rng: &mut Prng| -> Card {
            match rng.below(12) {
                0 => int(i64::MIN),
                1 => int(i64::MAX),
                2 => int(-1),
                3 => int(0),
                4 => int(1),
                5 => int(i64::MIN + 1),
                6 => real(f64::INFINITY),
                7 => real(-0.0),
                8 => bin("div", real(0.0), real(0.0)),
                9 => nil(),
                10 => strc("abc"),
                _ => real(1e308),
            }
        };
        let mut cards = vec![set("_", nil())];
        for _ in 0..rng.range(4, 30) {
            let op = *rng.pick(&["add", "sub", "mul", "div", "less", "le", "eq", "ne", "and", "or", "xor"]);
            let (a, b) = (vals(rng), vals(rng));
            cards.push(set("_", bin(op, a, b)));
        }
        return (with_main(Module::default(), cards), "arithmetic-extremes");
    }
    if rng.chance(1, 10) {
        // the library's ordering functions over values that are not totally ordered (nil, strings, tables, numbers,
        // NaN, a table that contains itself), in tables large enough for every sorting strategy
        let n = *rng.pick(&[3usize, 8, 21, 24, 28, 32, 33, 40, 50, 64, 130]);
        // the ordering function runs once at the end, or after every append (every size up to n)
        let every_size = n <= 50 && rng.chance(1, 2);
        let mk_call = |rng: &mut Prng| -> Card {
            let f = *rng.pick(&["std.sorted", "std.sorted", "std.min", "std.max", "std.sorted_by_key", "std.min_by_key", "std.max_by_key"]);
            if f.ends_with("by_key") {
                call(f, vec![closure(&["k", "v"], vec![un("ret", read("v"))]), read("t")])
            } else {
                call(f, vec![read("t")])
            }
        };
        let mut cards = vec![set("_", nil()), set("r", nil()), set("t", CardBody::CreateTable.into()), set("self_ref", CardBody::CreateTable.into())];
        cards.push(bin("append", read("self_ref"), read("self_ref")));
        for _ in 0..n {
            let v = match rng.below(9) {
                0 => nil(),
                1 => strc(*rng.pick(&["", "a", "ab", "ba", "abc"])),
                2 => int(rng.range(-3, 4)),
                3 => real(rng.range(-6, 6) as f64 / 2.0),
                4 => bin("div", real(0.0), real(0.0)),
                5 => CardBody::CreateTable.into(),
                6 => read("self_ref"),
                7 => native("pair", vec![int(1), nil()]),
                _ => int(rng.range(0, 2)),
            };
            cards.push(bin("append", v, read("t")));
            if every_size {
                cards.push(set("r", mk_call(rng)));
            }
        }
        cards.push(set("r", mk_call(rng)));
        cards.push(discard(un("len", read("r"))));
        return (with_main(Module::default(), cards), "ordering-of-unordered-values");
    }
    match rng.below(12) {
        0 => {
            // self-referencing table, compared / hashed / used as key / printed
            let mut cards = vec![set("_", nil()), set("t", CardBody::CreateTable.into()), bin("append", read("t"), read("t"))];
            match rng.below(5) {
                0 => cards.push(discard(bin("eq", read("t"), read("t")))),
                1 => cards.push(setprop(int(1), read("t"), read("t"))),
                2 => cards.push(discard(bin("less", read("t"), read("t")))),
                3 => {
                    cards.push(set("u", CardBody::CreateTable.into()));
                    cards.push(bin("append", read("u"), read("u")));
                    cards.push(discard(bin("eq", read("t"), read("u"))));
                }
                _ => cards.push(discard(native("log1", vec![read("t")]))),
            }
            (with_main(Module::default(), cards), "cyclic-table")
        }
        1 => {
            // unbounded recursion with a few locals per frame
            let nl = rng.below(4);
            let mut body = vec![set("_", nil())];
            for i in 0..nl {
                body.push(set(format!("l{i}"), int(i as i64)));
            }
            let callc = match rng.below(3) {
                0 => call("f", vec![read("d")]),
                1 => dyncall(CardBody::Function("f".into()).into(), vec![read("d")]),
                _ => native("apply1", vec![CardBody::Function("f".into()).into(), read("d")]),
            };
            body.push(un("ret", callc));
            let mut m = Module::default();
            m.functions.push(("f".into(), Function { arguments: vec!["d".into()], cards: body }));
            (with_main(m, vec![set("_", nil()), discard(call("f", vec![int(1)]))]), "unbounded-recursion")
        }
        2 => {
            // reserved-hash keys
            let cards = vec![
                set("_", nil()),
                set("t", CardBody::CreateTable.into()),
                setprop(int(1), read("t"), int(3291555020)),
                setprop(int(2), read("t"), strc("xvgngxt")),
                setprop(int(3), read("t"), int(3416215008)),
                discard(native("log3", vec![bin("getprop", read("t"), int(3291555020)), bin("getprop", read("t"), strc("xvgngxt")), un("len", read("t"))])),
                setg("ppkttia", int(4)),
                discard(native("log1", vec![read("ppkttia")])),
            ];
            (with_main(Module::default(), cards), "reserved-hash-keys")
        }
        3 => {
            // allocation loop (memory exhaustion inside table growth / string creation)
            let n = rng.range(10, 3000);
            let cards = vec![
                set("_", nil()),
                set("t", CardBody::CreateTable.into()),
                repeat(int(n), Some("i"), comp(vec![bin("append", native("concat", vec![read("i"), strc("padding-padding-padding")]), read("t"))])),
                discard(native("log1", vec![un("len", read("t"))])),
            ];
            (with_main(Module::default(), cards), "allocation-loop")
        }
        4 => {
            // wrong-type operands everywhere
            let vals = |rng: &mut Prng| -> Card {
                match rng.below(7) {
                    0 => nil(),
                    1 => int(i64::MIN),
                    2 => real(f64::NAN),
                    3 => strc("s"),
                    4 => CardBody::CreateTable.into(),
                    5 => CardBody::Function("main".into()).into(),
                    _ => CardBody::NativeFunction("log1".into()).into(),
                }
            };
            let mut cards = vec![set("_", nil())];
            for _ in 0..rng.range(1, 6) {
                let a = vals(rng);
                let b = vals(rng);
                let c = match rng.below(12) {
                    0 => discard(bin("add", a, b)),
                    1 => discard(bin("div", a, b)),
                    2 => discard(bin("less", a, b)),
                    3 => discard(bin("eq", a, b)),
                    4 => discard(bin("getprop", a, b)),
                    5 => discard(bin("get", a, b)),
                    6 => bin("append", a, b),
                    7 => discard(un("pop", a)),
                    8 => discard(un("len", a)),
                    9 => setprop(a, b, vals(rng)),
                    10 => discard(dyncall(a, vec![b])),
                    _ => foreach(Some("i"), Some("k"), Some("v"), a, comp(vec![])),
                };
                cards.push(c);
            }
            (with_main(Module::default(), cards), "wrong-types")
        }
        5 => {
            // failing natives and missing natives, also below a re-entry
            let mut m = Module::default();
            m.functions.push(("bad".into(), Function { arguments: vec![], cards: vec![set("_", nil()), discard(native(*rng.pick(&["fail", "nosuch"]), vec![]))] }));
            let c = if rng.chance(1, 2) { native("apply0", vec![CardBody::Function("bad".into()).into()]) } else { call("bad", vec![]) };
            (with_main(m, vec![set("_", nil()), discard(c)]), "failing-natives")
        }
        6 => {
            // library calls with odd inputs
            let f = *rng.pick(&["std.sorted", "std.min", "std.max", "std.to_array"]);
            let arg = match rng.below(5) {
                0 => nil(),
                1 => int(3),
                2 => strc("abc"),
                3 => CardBody::Function("main".into()).into(),
                _ => CardBody::CreateTable.into(),
            };
            (with_main(Module::default(), vec![set("_", nil()), discard(native("log1", vec![call(f, vec![arg])]))]), "library-odd-input")
        }
        _ => {
            let mut g = ProgGen::new(rng, GenCfg { closures: 12, ill_typed: 20, ..GenCfg::core() });
            (g.gen_program(), "random-hostile")
        }
    }
}

impl Engine for TotalEngine {
    type Case = Case;
    fn name(&self) -> &'static str {
        "total"
    }
    fn describe(&self, case: &Self::Case) -> serde_json::Value {
        let mut v = serde_json::to_value(case).unwrap_or(serde_json::Value::Null);
        if let Some(o) = v.as_object_mut() {
            o.insert("module".into(), serde_json::Value::String(crate::pp::module(&case.module, "")));
        }
        v
    }
    fn gen(&mut self, rng: &mut Prng, _tier: Tier) -> Case {
        let pick = rng.below(10);
        let (module, kind): (Module, String) = match pick {
            0..=3 => (arbitrary_module(rng, 2), "compile:arbitrary".into()),
            4 => {
                let (m, k) = limit_case(rng);
                (m, format!("compile:{k}"))
            }
            _ => {
                let (m, k) = hostile_program(rng);
                (m, format!("run:{k}"))
            }
        };
        let loader = rng.pick(&["", "", "json", "yaml"]).to_string();
        let value_stack = *rng.pick(&[1usize, 2, 3, 8, 16, 256, 256, 256]);
        let call_stack = *rng.pick(&[1usize, 2, 3, 8, 256, 256, 256]);
        let memory_limit = *rng.pick(&[64usize, 256, 1024, 4096, 65536, 400 * 1024, 400 * 1024, 1 << 24]);
        let budget = *rng.pick(&[0u64, 1, 2, 3, 10, 100, 10_000, 100_000, 100_000]);
        Case { kind, module, loader, value_stack, call_stack, memory_limit, budget, gc: rng.chance(1, 2) }
    }

    fn run(&mut self, case: &Case, obs: &mut Obs) -> Verdict {
        if std::env::var("CAOVERIF_PP").is_ok() {
            eprintln!("{}", crate::pp::module(&case.module, ""));
        }
        obs.inc(&format!("kind:{}", case.kind));
        // the loaders define the input domain: whatever they admit, the compiler must survive
        let module: Module = match case.loader.as_str() {
            "json" => {
                let txt = match serde_json::to_string(&case.module) {
                    Ok(t) => t,
                    Err(_) => return Verdict::Skip { reason: "module not serialisable as JSON (non-finite float)".into() },
                };
                match serde_json::from_str(&txt) {
                    Ok(m) => {
                        obs.inc("loaded:json");
                        m
                    }
                    Err(_) => return Verdict::Skip { reason: "rejected by the JSON loader".into() },
                }
            }
            "yaml" => {
                let txt = match serde_yaml::to_string(&case.module) {
                    Ok(t) => t,
                    Err(_) => return Verdict::Skip { reason: "module not serialisable as YAML".into() },
                };
                match serde_yaml::from_str(&txt) {
                    Ok(m) => {
                        obs.inc("loaded:yaml");
                        m
                    }
                    Err(_) => return Verdict::Skip { reason: "rejected by the YAML loader".into() },
                }
            }
            _ => case.module.clone(),
        };
        crate::runner::note("PHASE compile");
        let t0 = std::time::Instant::now();
        let compiled = compile(module, CompileOptions::new());
        let dt = t0.elapsed().as_secs_f64();
        obs.max("compile_ms", (dt * 1000.0) as u64);
        let program = match compiled {
            Ok(p) => {
                obs.inc("compile:Ok");
                p
            }
            Err(e) => {
                obs.inc(&format!("compile:Err:{}", format!("{:?}", e.payload).split(|c: char| !c.is_alphanumeric()).next().unwrap_or("?")));
                obs.nontrivial = true;
                return Verdict::Ok;
            }
        };
        if !case.kind.starts_with("run:") {
            // arbitrary (not well-scoped) programs are only required to compile without crashing
            obs.nontrivial = true;
            return Verdict::Ok;
        }
        crate::runner::note("PHASE run");
        let cfg = VmConfig {
            max_instr: case.budget,
            suppress_gc: !case.gc,
            memory_limit: Some(case.memory_limit),
            stack_size: Some((case.value_stack.max(1), case.call_stack.max(1))),
        };
        let mut vm = new_vm(&cfg, &[]);
        // "nor loops without consuming budget": the work of one run is bounded by its budget
        let over = std::rc::Rc::new(std::cell::Cell::new(0u64));
        let (o2, budget) = (over.clone(), case.budget);
        vm.runtime_data.verif.on_dispatch = Some(Box::new(move |rt, _| {
            if rt.verif.dispatched > budget && o2.get() == 0 {
                o2.set(rt.verif.dispatched);
                crate::runner::note(&format!("EVIDENCE overbudget dispatched={} budget={}", rt.verif.dispatched, budget));
                rt.verif.abort_requested.set(true);
            }
        }));
        let r = vm.run(&program);
        vm.runtime_data.verif.on_dispatch = None;
        if over.get() > 0 {
            return Verdict::violation("C04:work-not-bounded-by-budget", format!("budget {}: the interpreter dispatched {} instructions and had not stopped", case.budget, over.get()));
        }
        match &r {
            Ok(()) => obs.inc("run:Ok"),
            Err(e) => obs.inc(&format!("run:Err:{}", err_kind(&e.payload).split('[').next().unwrap_or("?"))),
        }
        // a second run on the same VM after clear must not crash either
        vm.clear();
        vm.max_instr = case.budget.max(50);
        let _ = vm.run(&program);
        obs.add("vm_instructions", vm.runtime_data.verif.dispatched);
        obs.nontrivial = true;
        Verdict::Ok
    }

    fn shrink(&self, case: &Case) -> Vec<Case> {
        shrink_module(&case.module).into_iter().map(|m| Case { module: m, ..case.clone() }).collect()
    }
}
