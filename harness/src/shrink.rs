//! Delta-debugging candidates for card programs. A candidate that leaves the judged class is simply
//! rejected by the minimiser (it no longer reproduces the same signature).
use cao_lang::compiler::{Card, CardBody, Module};

fn for_each_list<'a>(c: &'a mut Card, f: &mut dyn FnMut(&mut Vec<Card>)) {
    // visit every list of cards (statement lists) below c
    match &mut c.body {
        CardBody::CompositeCard(cc) => {
            f(&mut cc.cards);
            for x in cc.cards.iter_mut() {
                for_each_list(x, f);
            }
        }
        CardBody::Closure(func) => {
            f(&mut func.cards);
            for x in func.cards.iter_mut() {
                for_each_list(x, f);
            }
        }
        _ => {
            for x in c.iter_children_mut() {
                for_each_list(x, f);
            }
        }
    }
}

fn count_lists(m: &mut Module) -> Vec<usize> {
    // sizes of all statement lists in visiting order
    let mut sizes = Vec::new();
    for_each_module_list(m, &mut |l| sizes.push(l.len()));
    sizes
}

fn for_each_module_list(m: &mut Module, f: &mut dyn FnMut(&mut Vec<Card>)) {
    for (_, func) in m.functions.iter_mut() {
        f(&mut func.cards);
        for c in func.cards.iter_mut() {
            for_each_list(c, f);
        }
    }
    for (_, sm) in m.submodules.iter_mut() {
        for_each_module_list(sm, f);
    }
}

fn count_cards(c: &Card) -> usize {
    1 + c.iter_children().map(count_cards).sum::<usize>()
}

fn visit_cards_mut(c: &mut Card, counter: &mut usize, target: usize, f: &mut dyn FnMut(&mut Card)) -> bool {
    if *counter == target {
        f(c);
        return true;
    }
    *counter += 1;
    for x in c.iter_children_mut() {
        if visit_cards_mut(x, counter, target, f) {
            return true;
        }
    }
    false
}

fn module_card_count(m: &Module) -> usize {
    let mut n = 0;
    for (_, f) in m.functions.iter() {
        n += f.cards.iter().map(count_cards).sum::<usize>();
    }
    for (_, sm) in m.submodules.iter() {
        n += module_card_count(sm);
    }
    n
}

fn visit_module_card(m: &mut Module, counter: &mut usize, target: usize, f: &mut dyn FnMut(&mut Card)) -> bool {
    for (_, func) in m.functions.iter_mut() {
        for c in func.cards.iter_mut() {
            if visit_cards_mut(c, counter, target, f) {
                return true;
            }
        }
    }
    for (_, sm) in m.submodules.iter_mut() {
        if visit_module_card(sm, counter, target, f) {
            return true;
        }
    }
    false
}

pub fn shrink_module(m: &Module) -> Vec<Module> {
    let mut out = Vec::new();
    // 1. drop whole functions (not main)
    for i in 0..m.functions.len() {
        if m.functions[i].0 != "main" {
            let mut c = m.clone();
            c.functions.remove(i);
            out.push(c);
        }
    }
    for si in 0..m.submodules.len() {
        let mut c = m.clone();
        c.submodules.remove(si);
        out.push(c);
        for fi in 0..m.submodules[si].1.functions.len() {
            let mut c = m.clone();
            c.submodules[si].1.functions.remove(fi);
            out.push(c);
        }
    }
    // 2. drop statements: halves of each list first, then single statements
    let sizes = count_lists(&mut m.clone());
    for (li, sz) in sizes.iter().enumerate() {
        if *sz >= 4 {
            for half in 0..2 {
                let mut c = m.clone();
                let mut idx = 0;
                for_each_module_list(&mut c, &mut |l| {
                    if idx == li {
                        let mid = l.len() / 2;
                        if half == 0 {
                            l.drain(..mid);
                        } else {
                            l.drain(mid..);
                        }
                    }
                    idx += 1;
                });
                out.push(c);
            }
        }
    }
    for (li, sz) in sizes.iter().enumerate() {
        for k in (0..*sz).rev() {
            let mut c = m.clone();
            let mut idx = 0;
            for_each_module_list(&mut c, &mut |l| {
                if idx == li && k < l.len() {
                    l.remove(k);
                }
                idx += 1;
            });
            out.push(c);
        }
    }
    // 3. replace control structures by their body, expressions by a literal
    let n = module_card_count(m);
    for t in 0..n.min(400) {
        let mut c = m.clone();
        let mut changed = false;
        let mut counter = 0;
        visit_module_card(&mut c, &mut counter, t, &mut |card| {
            let repl: Option<Card> = match &card.body {
                CardBody::IfTrue(b) | CardBody::IfFalse(b) | CardBody::While(b) => Some(b[1].clone()),
                CardBody::IfElse(t) => Some(t[1].clone()),
                CardBody::Repeat(r) => Some(r.body.clone()),
                CardBody::Add(b) | CardBody::Sub(b) | CardBody::Mul(b) | CardBody::Div(b) => Some(b[0].clone()),
                CardBody::CompositeCard(cc) if cc.cards.len() == 1 => Some(cc.cards[0].clone()),
                CardBody::Call(_) | CardBody::DynamicCall(_) | CardBody::CallNative(_) | CardBody::Closure(_) | CardBody::Array(_) => Some(CardBody::ScalarInt(1).into()),
                _ => None,
            };
            if let Some(r) = repl {
                *card = r;
                changed = true;
            }
        });
        if changed {
            out.push(c);
        }
    }
    out
}
