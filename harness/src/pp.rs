//! Pretty printer for card programs (triage aid only).
use cao_lang::compiler::{Card, CardBody, Function, Module};

fn args(cs: &[Card]) -> String {
    cs.iter().map(expr).collect::<Vec<_>>().join(", ")
}

pub fn expr(c: &Card) -> String {
    use CardBody::*;
    match &c.body {
        ScalarNil => "nil".into(),
        ScalarInt(i) => format!("{i}"),
        ScalarFloat(f) => format!("{f:?}"),
        StringLiteral(s) => {
            if s.len() > 40 {
                format!("\"{}…\"(len {})", s.chars().take(8).collect::<String>(), s.len())
            } else {
                format!("{s:?}")
            }
        }
        CreateTable => "{}".into(),
        Abort => "ABORT".into(),
        Comment(_) => "/*comment*/".into(),
        Add(b) => format!("({} + {})", expr(&b[0]), expr(&b[1])),
        Sub(b) => format!("({} - {})", expr(&b[0]), expr(&b[1])),
        Mul(b) => format!("({} * {})", expr(&b[0]), expr(&b[1])),
        Div(b) => format!("({} / {})", expr(&b[0]), expr(&b[1])),
        Less(b) => format!("({} < {})", expr(&b[0]), expr(&b[1])),
        LessOrEq(b) => format!("({} <= {})", expr(&b[0]), expr(&b[1])),
        Equals(b) => format!("({} == {})", expr(&b[0]), expr(&b[1])),
        NotEquals(b) => format!("({} != {})", expr(&b[0]), expr(&b[1])),
        And(b) => format!("({} and {})", expr(&b[0]), expr(&b[1])),
        Or(b) => format!("({} or {})", expr(&b[0]), expr(&b[1])),
        Xor(b) => format!("({} xor {})", expr(&b[0]), expr(&b[1])),
        Not(u) => format!("not {}", expr(&u.card)),
        Return(u) => format!("return {}", expr(&u.card)),
        Len(u) => format!("len({})", expr(&u.card)),
        PopTable(u) => format!("pop({})", expr(&u.card)),
        SetProperty(t) => format!("{}[{}] = {}", expr(&t[1]), expr(&t[2]), expr(&t[0])),
        GetProperty(b) => format!("{}[{}]", expr(&b[0]), expr(&b[1])),
        Get(b) => format!("row({}, {})", expr(&b[0]), expr(&b[1])),
        AppendTable(b) => format!("append({}, to {})", expr(&b[0]), expr(&b[1])),
        CallNative(j) => format!("native:{}({})", j.name, args(&j.args.0)),
        Call(j) => format!("{}({})", j.function_name, args(&j.args.0)),
        DynamicCall(j) => format!("call[{}]({})", expr(&j.function), args(&j.args.0)),
        Function(n) => format!("&{n}"),
        NativeFunction(n) => format!("&native:{n}"),
        SetGlobalVar(s) => format!("GLOBAL {} = {}", s.name, expr(&s.value)),
        SetVar(s) => format!("{} = {}", s.name, expr(&s.value)),
        ReadVar(n) => n.clone(),
        IfTrue(b) => format!("if {} {{ {} }}", expr(&b[0]), expr(&b[1])),
        IfFalse(b) => format!("unless {} {{ {} }}", expr(&b[0]), expr(&b[1])),
        IfElse(t) => format!("if {} {{ {} }} else {{ {} }}", expr(&t[0]), expr(&t[1]), expr(&t[2])),
        While(b) => format!("while {} {{ {} }}", expr(&b[0]), expr(&b[1])),
        Repeat(r) => format!("repeat {} as {:?} {{ {} }}", expr(&r.n), r.i, expr(&r.body)),
        ForEach(f) => format!("foreach(i={:?},k={:?},v={:?}) in {} {{ {} }}", f.i, f.k, f.v, expr(&f.iterable), expr(&f.body)),
        CompositeCard(cc) => cc.cards.iter().map(expr).collect::<Vec<_>>().join("; "),
        Array(a) => format!("[{}]", args(a)),
        Closure(f) => format!("closure({}) {{ {} }}", f.arguments.join(","), f.cards.iter().map(expr).collect::<Vec<_>>().join("; ")),
    }
}

pub fn function(name: &str, f: &Function, indent: &str) -> String {
    let mut s = format!("{indent}fn {name}({}) {{\n", f.arguments.join(", "));
    for (i, c) in f.cards.iter().enumerate() {
        s.push_str(&format!("{indent}  [{i}] {}\n", expr(c)));
    }
    s.push_str(&format!("{indent}}}\n"));
    s
}

pub fn module(m: &Module, indent: &str) -> String {
    let mut s = String::new();
    if !m.imports.is_empty() {
        s.push_str(&format!("{indent}imports {:?}\n", m.imports));
    }
    for (n, f) in m.functions.iter() {
        s.push_str(&function(n, f, indent));
    }
    for (n, sm) in m.submodules.iter() {
        s.push_str(&format!("{indent}module {n} {{\n"));
        s.push_str(&module(sm, &format!("{indent}  ")));
        s.push_str(&format!("{indent}}}\n"));
    }
    s
}
