//! C01 / C06: differential execution of generated well-scoped programs against the reference semantics.
use crate::dval::{is_resource_error, DVal};
use crate::gen::{GenCfg, ProgGen};
use crate::prng::Prng;
use crate::refsem::{Interp, Outcome};
use crate::runner::{Engine, Obs, Tier, Verdict};
use crate::shrink::shrink_module;
use crate::vmrun::{native_specs, run_module, VmConfig, VmOutcome};
use cao_lang::compiler::Module;
use serde::{Deserialize, Serialize};

#[derive(Clone, Serialize, Deserialize)]
pub struct Case {
    pub module: Module,
    pub inputs: Vec<DVal>,
    pub scenario: String,
}

pub struct ProgEngine {
    pub pid: &'static str,
    pub closures: bool,
    pub dev_profile: bool,
}

pub fn gen_inputs(rng: &mut Prng) -> Vec<DVal> {
    vec![
        DVal::Int(rng.range(-4, 9)),
        DVal::real(rng.range(-6, 6) as f64 / 2.0),
        DVal::Str(rng.pick(&["", "in", "héé", "input-string"]).to_string()),
    ]
}

/// compare the two outcomes; returns (signature tail, detail) of the first difference
pub fn compare_outcomes(vm: &VmOutcome, rf: &Outcome) -> Option<(String, String)> {
    if vm.result != rf.result {
        return Some((
            format!("result:vm={},ref={}", vm.result, rf.result),
            format!("the VM ended with {} but the card semantics give {} (VM trace {:?})", vm.result, rf.result, vm.trace.first()),
        ));
    }
    // host-call log
    let n = vm.log.len().min(rf.log.len());
    for i in 0..n {
        if vm.log[i] != rf.log[i] {
            let (a, b) = (&vm.log[i], &rf.log[i]);
            let what = if a.0 != b.0 { "function".to_string() } else { format!("arg:{}", kinds(&a.1, &b.1)) };
            return Some((
                format!("host-call:{what}"),
                format!(
                    "host call #{i}: the VM called {}({}) but the card semantics give {}({})",
                    a.0,
                    a.1.iter().map(|d| d.short()).collect::<Vec<_>>().join(", "),
                    b.0,
                    b.1.iter().map(|d| d.short()).collect::<Vec<_>>().join(", ")
                ),
            ));
        }
    }
    if vm.log.len() != rf.log.len() {
        return Some((
            "host-call:count".into(),
            format!("the VM made {} host calls, the card semantics give {}", vm.log.len(), rf.log.len()),
        ));
    }
    // globals: every name either side knows; a missing one reads as nil
    let mut names: Vec<&String> = vm.globals.iter().map(|(n, _)| n).chain(rf.globals.iter().map(|(n, _)| n)).collect();
    names.sort();
    names.dedup();
    for n in names {
        let a = vm.globals.iter().find(|(m, _)| m == n).map(|(_, v)| v.clone()).unwrap_or(DVal::Nil);
        let b = rf.globals.iter().find(|(m, _)| m == n).map(|(_, v)| v.clone()).unwrap_or(DVal::Nil);
        if !dval_eq(&a, &b) {
            return Some((
                format!("global:{}", kinds(std::slice::from_ref(&a), std::slice::from_ref(&b))),
                format!("global {n}: the VM has {} but the card semantics give {}", a.short(), b.short()),
            ));
        }
    }
    None
}

/// function values compare by kind only (the reference does not model arity of by-name functions)
pub fn dval_eq(a: &DVal, b: &DVal) -> bool {
    match (a, b) {
        (DVal::Func(k1, a1), DVal::Func(k2, a2)) => k1 == k2 && (*a1 < 0 || *a2 < 0 || a1 == a2),
        (DVal::Table(x), DVal::Table(y)) => x.len() == y.len() && x.iter().zip(y.iter()).all(|((k1, v1), (k2, v2))| dval_eq(k1, k2) && dval_eq(v1, v2)),
        _ => a == b,
    }
}

fn kind_of(d: &DVal) -> &'static str {
    match d {
        DVal::Nil => "nil",
        DVal::Int(_) => "int",
        DVal::Real(_) => "real",
        DVal::Str(_) => "str",
        DVal::Table(_) => "table",
        DVal::Func(..) => "func",
        DVal::Cycle(_) => "cycle",
        DVal::Other(_) => "other",
    }
}

fn kinds(a: &[DVal], b: &[DVal]) -> String {
    for (x, y) in a.iter().zip(b.iter()) {
        if !dval_eq(x, y) {
            return format!("vm={},ref={}", kind_of(x), kind_of(y));
        }
    }
    "arity".into()
}

pub fn judge(pid: &str, case: &Case, dev_profile: bool, obs: &mut Obs) -> Verdict {
    let rf = Interp::new(&case.module, native_specs(), case.inputs.clone()).run_main();
    if let Some(u) = &rf.unspecified {
        return Verdict::Skip { reason: format!("unspecified: {}", crate::runner::normalise_msg(u)) };
    }
    if let Some(i) = &rf.inconclusive {
        return Verdict::Inconclusive { reason: i.clone() };
    }
    let _ = dev_profile;
    if rf.overflow_seen {
        obs.inc("programs_with_integer_overflow");
    }
    let cfg = VmConfig::default();
    let (vm, _program) = match run_module(&case.module, &cfg, &case.inputs) {
        Ok(x) => x,
        Err(e) => {
            return Verdict::violation(
                format!("{pid}:compile-error:{}", crate::runner::normalise_msg(&format!("{:?}", e.payload)).chars().take(40).collect::<String>()),
                format!("a well-scoped program was rejected by the compiler: {e}"),
            );
        }
    };
    for (k, n) in rf.cards_run.iter() {
        obs.add(&format!("card:{k}"), *n);
    }
    for (k, n) in rf.features.iter() {
        obs.add(&format!("feat:{k}"), *n);
    }
    obs.add("vm_instructions", vm.dispatched);
    obs.inc(&format!("result:{}", rf.result.split('[').next().unwrap_or("?")));
    if vm.max_reentry_depth >= 1 {
        obs.inc("programs_with_native_reentry");
    }
    if is_resource_error(&vm.result) && vm.result != rf.result {
        // the reference does not model resource limits; only a failure far below the limits is a finding
        if rf.max_depth < 60 && rf.leftovers == 0 && rf.steps < 20_000 {
            return Verdict::violation(
                format!("{pid}:spurious-{}", vm.result),
                format!("the VM reports {} although the program needs call depth {} and {} steps", vm.result, rf.max_depth, rf.steps),
            );
        }
        return Verdict::Inconclusive { reason: format!("resource error {} near the limits", vm.result) };
    }
    if let Some((sig, detail)) = compare_outcomes(&vm, &rf) {
        return Verdict::violation(format!("{pid}:{sig}"), detail);
    }
    let loops = rf.cards_run.get("Repeat").copied().unwrap_or(0) + rf.cards_run.get("While").copied().unwrap_or(0) + rf.cards_run.get("ForEach").copied().unwrap_or(0);
    let calls = rf.cards_run.get("Call").copied().unwrap_or(0) + rf.cards_run.get("DynamicCall").copied().unwrap_or(0);
    if vm.dispatched >= 25 && (loops + calls) >= 2 {
        obs.nontrivial = true;
    }
    Verdict::Ok
}

impl Engine for ProgEngine {
    type Case = Case;
    fn name(&self) -> &'static str {
        if self.closures {
            "prog-closures"
        } else {
            "prog"
        }
    }
    fn describe(&self, case: &Self::Case) -> serde_json::Value {
        let mut v = serde_json::to_value(case).unwrap_or(serde_json::Value::Null);
        if let Some(o) = v.as_object_mut() {
            o.insert("module".into(), serde_json::Value::String(crate::pp::module(&case.module, "")));
        }
        v
    }
    fn gen(&mut self, rng: &mut Prng, _tier: Tier) -> Case {
        let inputs = gen_inputs(rng);
        if self.closures && rng.chance(1, 2) {
            let (module, scenario) = crate::gen_closure::gen_closure_scenario(rng);
            return Case { module, inputs, scenario };
        }
        let cfg = if self.closures { GenCfg::closures() } else { GenCfg::core() };
        let mut g = ProgGen::new(rng, cfg);
        let module = g.gen_program();
        Case { module, inputs, scenario: "random".into() }
    }
    fn run(&mut self, case: &Case, obs: &mut Obs) -> Verdict {
        if std::env::var("CAOVERIF_PP").is_ok() {
            eprintln!("{}", crate::pp::module(&case.module, ""));
        }
        obs.inc(&format!("scenario:{}", case.scenario));
        judge(self.pid, case, self.dev_profile, obs)
    }
    fn shrink(&self, case: &Case) -> Vec<Case> {
        shrink_module(&case.module)
            .into_iter()
            .map(|m| Case { module: m, inputs: case.inputs.clone(), scenario: case.scenario.clone() })
            .collect()
    }
}
