//! C09: standard-library contracts. Programs built around library calls on generated tables; the executable
//! specification lives in the reference interpreter (refsem.rs, `std_inner`), which shares no code with stdlib.rs.
use crate::e_prog::{judge, Case};
use crate::gen::*;
use crate::prng::Prng;
use crate::runner::{Engine, Obs, Tier, Verdict};
use crate::shrink::shrink_module;
use cao_lang::compiler::{Card, CardBody, Function, Module};

pub struct StdlibEngine {}

fn func(params: &[&str], cards: Vec<Card>) -> Function {
    Function { arguments: params.iter().map(|s| s.to_string()).collect(), cards }
}

fn gen_value(rng: &mut Prng, kind: usize) -> Card {
    match kind {
        // few distinct integers: ties everywhere
        0 => int(rng.range(0, 4)),
        // mixed integers and reals
        1 => {
            if rng.chance(1, 2) {
                int(rng.range(-3, 6))
            } else {
                real(rng.range(-6, 12) as f64 / 2.0)
            }
        }
        // strings of distinct lengths (ordered by length), with ties on purpose
        2 => strc(*rng.pick(&["", "a", "bb", "ccc", "dddd", "a", "bb"])),
        // numbers and nil
        3 => {
            if rng.chance(1, 5) {
                nil()
            } else {
                int(rng.range(-2, 3))
            }
        }
        _ => int(rng.range(-100, 100)),
    }
}

fn gen_key_card(rng: &mut Prng, i: usize, style: usize) -> Card {
    match style {
        0 => int(i as i64),
        1 => strc(format!("k{i}")),
        2 => int((i as i64) * 3 + 10),
        _ => {
            if i == 0 && rng.chance(1, 2) {
                nil()
            } else {
                strc(format!("{}", (b'a' + (i % 26) as u8) as char).repeat(1 + i / 26))
            }
        }
    }
}

pub fn gen_std_program(rng: &mut Prng) -> (Module, String) {
    let mut m = Module::default();
    let mut main = vec![set("_", nil())];
    let n = match rng.below(8) {
        0 => 0,
        1 => 1,
        2 => 2,
        // beyond the sizes at which sort implementations switch algorithms
        3 | 4 => rng.range(21, 120) as usize,
        // long runs of successive improvements for min / max (monotone values, see below)
        5 => rng.range(250, 420) as usize,
        _ => rng.range(3, 20) as usize,
    };
    let mut vkind = rng.below(5);
    let monotone = n >= 250;
    if monotone {
        vkind = 9;
    }
    let descending = rng.chance(1, 2);
    let kstyle = rng.below(4);
    main.push(set("t", CardBody::CreateTable.into()));
    for i in 0..n {
        if monotone {
            let v = if descending { (n - i) as i64 } else { i as i64 };
            main.push(bin("append", int(v), read("t")));
            continue;
        }
        if kstyle == 0 && rng.chance(2, 3) {
            main.push(bin("append", gen_value(rng, vkind), read("t")));
        } else {
            main.push(setprop(gen_value(rng, vkind), read("t"), gen_key_card(rng, i, kstyle)));
        }
    }
    main.push(discard(native("log1", vec![read("t")])));
    main.push(set("counter", int(0)));

    let fname = if monotone {
        *rng.pick(&["min", "max", "min_by_key", "max_by_key"])
    } else {
        *rng.pick(&["filter", "map", "any", "min", "max", "min_by_key", "max_by_key", "sorted", "sorted_by_key", "to_array"])
    };
    let three = rng.chance(1, 2);
    let params: Vec<&str> = if three { vec!["k", "v", "i"] } else { vec!["k", "v"] };
    let cb_kind = rng.below(7);
    let threshold = rng.range(0, 3);
    let cb_body: Vec<Card> = match cb_kind {
        0 => vec![un("ret", bin("less", int(threshold), read("v")))],
        1 => vec![un("ret", bin("le", read("v"), int(threshold)))],
        2 => vec![un("ret", read("v"))],
        // allocating
        3 => vec![set("s", native("concat", vec![read("k"), read("v")])), un("ret", un("len", read("s")))],
        // capturing a counter of the enclosing function
        4 => vec![set("counter", bin("add", read("counter"), int(1))), un("ret", bin("less", read("counter"), int(threshold + 2)))],
        // index based (only meaningful with three parameters)
        5 if three => vec![un("ret", bin("eq", bin("sub", read("i"), bin("mul", bin("div", read("i"), int(2)), int(2))), real(0.0)))],
        // key based
        _ => vec![un("ret", bin("ne", read("k"), gen_key_card(rng, 1, kstyle)))],
    };
    let key_kind = rng.below(6);
    let keyfn_body: Vec<Card> = match key_kind {
        // the key is a freshly allocated object (strings order by length): the library holds it while it calls the
        // key function again
        5 => vec![un("ret", native("concat", vec![read("v"), strc("k")]))],
        0 => vec![un("ret", read("v"))],
        1 => vec![un("ret", bin("sub", int(0), read("v")))],
        2 => vec![un("ret", bin("mul", read("v"), read("v")))],
        3 => vec![set("s", native("pair", vec![read("k"), read("v")])), un("ret", bin("add", read("v"), un("len", read("s"))))],
        _ => vec![un("ret", int(7))], // every key equal: first-of-ties / stability
    };
    // the callback is a closure or a named script function
    let named = rng.chance(1, 3) && cb_kind != 4;
    let (cb, keyfn): (Card, Card) = if named {
        m.functions.push(("cb".into(), func(&params, cb_body.clone())));
        m.functions.push(("keyfn".into(), func(&["k", "v"], keyfn_body.clone())));
        (CardBody::Function("cb".into()).into(), CardBody::Function("keyfn".into()).into())
    } else {
        (closure(&params, cb_body), closure(&["k", "v"], keyfn_body))
    };
    // sometimes the input is not a table at all
    let input: Card = if rng.chance(1, 12) {
        match rng.below(4) {
            0 => nil(),
            1 => int(5),
            2 => strc("text"),
            _ => real(2.5),
        }
    } else {
        read("t")
    };
    let callc = match fname {
        "filter" | "map" | "any" => call(&format!("std.{fname}"), vec![cb, input]),
        "min_by_key" | "max_by_key" | "sorted_by_key" => call(&format!("std.{fname}"), vec![keyfn, input]),
        _ => call(&format!("std.{fname}"), vec![input]),
    };
    let site = rng.below(4);
    match site {
        0 => main.push(set("r", callc)),
        1 => {
            // from a nested frame with its own locals
            m.functions.push(("wrapper".into(), func(&["tt", "pad"], vec![set("_", nil()), set("l0", int(1)), set("l1", strc("x")), set("counter", int(0)), set("t", read("tt")), un("ret", callc)])));
            main.push(set("r", call("wrapper", vec![int(9), read("t")])));
        }
        2 => {
            // the result feeds another library call
            main.push(set("r0", callc));
            main.push(set("r", ifelse(bin("eq", un("len", read("r0")), un("len", read("r0"))), call("std.to_array", vec![read("r0")]), nil())));
        }
        _ => {
            // imported by name
            m.imports.push(format!("std.{fname}"));
            let short = match &callc.body {
                CardBody::Call(j) => call(fname, j.args.0.clone()),
                _ => callc,
            };
            main.push(set("r", short));
        }
    }
    main.push(discard(native("log1", vec![read("r")])));
    // the input is not modified
    main.push(discard(native("log1", vec![read("t")])));
    main.push(discard(native("log1", vec![read("counter")])));
    m.functions.insert(0, ("main".into(), func(&[], main)));
    (m, format!("std.{fname}"))
}

impl Engine for StdlibEngine {
    type Case = Case;
    fn name(&self) -> &'static str {
        "stdlib"
    }
    fn describe(&self, case: &Self::Case) -> serde_json::Value {
        let mut v = serde_json::to_value(case).unwrap_or(serde_json::Value::Null);
        if let Some(o) = v.as_object_mut() {
            o.insert("module".into(), serde_json::Value::String(crate::pp::module(&case.module, "")));
        }
        v
    }
    fn gen(&mut self, rng: &mut Prng, _tier: Tier) -> Case {
        let (module, scenario) = gen_std_program(rng);
        Case { module, inputs: vec![], scenario }
    }
    fn run(&mut self, case: &Case, obs: &mut Obs) -> Verdict {
        if std::env::var("CAOVERIF_PP").is_ok() {
            eprintln!("{}", crate::pp::module(&case.module, ""));
        }
        obs.inc(&format!("call:{}", case.scenario));
        let v = judge("C09", case, cfg!(debug_assertions), obs);
        if matches!(v, Verdict::Ok) {
            obs.inc(&format!("judged:{}", case.scenario));
            obs.nontrivial = true;
        }
        v
    }
    fn shrink(&self, case: &Case) -> Vec<Case> {
        shrink_module(&case.module).into_iter().map(|m| Case { module: m, inputs: vec![], scenario: case.scenario.clone() }).collect()
    }
}
