//! C07: tables are insertion-ordered maps keyed by value. One generated history is judged through the host
//! API against an ordered-map model, or turned into a script and judged against the reference interpreter.
use crate::e_prog::{judge, Case as ProgCase};
use crate::gen::*;
use crate::prng::Prng;
use crate::runner::{Engine, Obs, Tier, Verdict};
use crate::vmrun::{new_vm, Aux, VmConfig};
use cao_lang::vm::runtime::cao_lang_object::ObjectGcGuard;
use cao_lang::compiler::{Card, CardBody, Function, Module};
use cao_lang::prelude::*;
use serde::{Deserialize, Serialize};

#[derive(Clone, Debug, Serialize, Deserialize, PartialEq)]
pub enum K {
    Nil,
    Int(i64),
    Real(u64),
    Str(String),
}

#[derive(Clone, Debug, Serialize, Deserialize, PartialEq)]
pub enum V {
    Int(i64),
    Str(String),
    /// reference to table #i (aliasing)
    Tab(usize),
}

#[derive(Clone, Debug, Serialize, Deserialize)]
pub enum Op {
    Set(usize, K, V),
    Get(usize, K),
    Remove(usize, K),
    Append(usize, V),
    Pop(usize),
    Len(usize),
    NthKey(usize, usize),
    Iterate(usize),
    /// script only: Get card (row by index)
    Row(usize, usize),
}

#[derive(Clone, Serialize, Deserialize)]
pub struct Case {
    pub script: bool,
    pub tables: usize,
    pub ops: Vec<Op>,
    /// host histories only: a small heap, so that some insert / append fails with OutOfMemory (the failed operation
    /// must leave the table as it was)
    #[serde(default)]
    pub memory_limit: Option<usize>,
}

pub struct TableEngine {}

const STR_KEYS: [&str; 5] = ["a", "b", "key", "xvgngxt", "aa"];

fn gen_key(rng: &mut Prng) -> K {
    match rng.below(12) {
        0..=5 => K::Int(rng.range(0, 7)),
        6 | 7 => K::Str(rng.pick(&STR_KEYS).to_string()),
        8 => K::Real((*rng.pick(&[1.5f64, 2.5, -0.5, 2.0])).to_bits()),
        9 => K::Nil,
        10 => K::Int(*rng.pick(&[3291555020i64, 3416215008, -1, i64::MAX])),
        _ => K::Int(rng.range(0, 20)),
    }
}

fn gen_val(rng: &mut Prng, tables: usize) -> V {
    match rng.below(8) {
        0..=4 => V::Int(rng.range(-50, 50)),
        5 | 6 => V::Str(rng.pick(&["x", "yy", "zzz", ""]).to_string()),
        _ => V::Tab(rng.below(tables)),
    }
}

// ---------------------------------------------------------------- model

#[derive(Clone, Debug, PartialEq)]
enum MV {
    Nil,
    Int(i64),
    Str(String),
    Tab(usize),
}

struct Model {
    tables: Vec<Vec<(K, MV)>>,
}

fn k_eq(a: &K, b: &K) -> bool {
    match (a, b) {
        (K::Real(x), K::Real(y)) => f64::from_bits(*x) == f64::from_bits(*y),
        _ => a == b,
    }
}

impl Model {
    fn find(&self, t: usize, k: &K) -> Option<usize> {
        self.tables[t].iter().position(|(kk, _)| k_eq(kk, k))
    }
    fn set(&mut self, t: usize, k: K, v: MV) {
        match self.find(t, &k) {
            Some(i) => self.tables[t][i].1 = v,
            None => self.tables[t].push((k, v)),
        }
    }
    fn append(&mut self, t: usize, v: MV) {
        let mut i = self.tables[t].len() as i64;
        while self.find(t, &K::Int(i)).is_some() {
            i += 1;
        }
        self.tables[t].push((K::Int(i), v));
    }
}

fn mv(v: &V) -> MV {
    match v {
        V::Int(i) => MV::Int(*i),
        V::Str(s) => MV::Str(s.clone()),
        V::Tab(i) => MV::Tab(*i),
    }
}

// ---------------------------------------------------------------- host side

fn mk_key(vm: &mut Vm<Aux>, k: &K, hold: &mut Vec<ObjectGcGuard>) -> Option<Value> {
    Some(match k {
        K::Nil => Value::Nil,
        K::Int(i) => Value::Integer(*i),
        K::Real(b) => Value::Real(f64::from_bits(*b)),
        // a fresh string object every time: lookups must work by content
        K::Str(s) => {
            // the host keeps the guard until the operation is over, as the API asks
            let p = vm.init_string(s).ok()?.into_inner();
            hold.push(ObjectGcGuard::new(p));
            Value::Object(p)
        }
    })
}

fn key_of(v: &Value) -> K {
    match v {
        Value::Nil => K::Nil,
        Value::Integer(i) => K::Int(*i),
        Value::Real(r) => K::Real(r.to_bits()),
        Value::Object(_) => match unsafe { v.as_str() } {
            Some(s) => K::Str(s.to_string()),
            None => K::Str("<non-string object>".into()),
        },
    }
}

fn val_of(v: &Value, tabs: &[Value]) -> MV {
    match v {
        Value::Nil => MV::Nil,
        Value::Integer(i) => MV::Int(*i),
        Value::Real(r) => MV::Str(format!("real {r}")),
        Value::Object(o) => {
            if let Some(i) = tabs.iter().position(|t| matches!(t, Value::Object(p) if p == o)) {
                return MV::Tab(i);
            }
            match unsafe { v.as_str() } {
                Some(s) => MV::Str(s.to_string()),
                None => MV::Str("<other object>".into()),
            }
        }
    }
}

fn viol(op: &str, what: &str, d: String) -> Verdict {
    Verdict::violation(format!("C07:host:{op}:{what}"), d)
}

fn tab<'a>(v: &'a mut Value) -> &'a mut CaoLangTable {
    match v {
        Value::Object(o) => unsafe { o.as_mut().as_table_mut().unwrap() },
        _ => unreachable!(),
    }
}

fn run_host(case: &Case, obs: &mut Obs) -> Verdict {
    let cfg = match case.memory_limit {
        // (no collections: the host holds its tables without roots)
        Some(l) => VmConfig { memory_limit: Some(l), suppress_gc: true, ..VmConfig::default() },
        None => VmConfig::default(),
    };
    let mut vm = new_vm(&cfg, &[]);
    let mut tabs: Vec<Value> = Vec::new();
    // the host's tables are kept alive by their guards; operands by `hold` until the operation is over
    let mut table_guards: Vec<ObjectGcGuard> = Vec::new();
    let mut hold: Vec<ObjectGcGuard> = Vec::new();
    for _ in 0..case.tables {
        match vm.init_table() {
            Ok(g) => {
                let p = g.into_inner();
                table_guards.push(ObjectGcGuard::new(p));
                tabs.push(Value::Object(p))
            }
            Err(_) => return Verdict::Skip { reason: "the heap is too small for the empty tables".into() },
        }
    }
    macro_rules! mk_str {
        ($s:expr) => {
            match vm.init_string($s) {
                Ok(g) => {
                    let p = g.into_inner();
                    hold.push(ObjectGcGuard::new(p));
                    Value::Object(p)
                }
                Err(_) => {
                    obs.inc("host:operand-allocation-failed");
                    continue;
                }
            }
        };
    }
    let mut model = Model { tables: vec![Vec::new(); case.tables] };
    let mut popped = vec![false; case.tables];
    for (step, op) in case.ops.iter().enumerate() {
        hold.clear();
        match op {
            Op::Set(t, k, v) => {
                obs.inc("host:set");
                let Some(kv) = mk_key(&mut vm, k, &mut hold) else {
                    obs.inc("host:operand-allocation-failed");
                    continue;
                };
                let vv = match v {
                    V::Int(i) => Value::Integer(*i),
                    V::Str(s) => mk_str!(s),
                    V::Tab(i) => {
                        obs.inc("aliased_table_stored");
                        tabs[*i]
                    }
                };
                match tab(&mut tabs[*t]).insert(kv, vv) {
                    Ok(_) => model.set(*t, k.clone(), mv(v)),
                    Err(ExecutionErrorPayload::OutOfMemory) if case.memory_limit.is_some() => {
                        // nothing changes (checked by the full comparison below)
                        obs.inc("host:insert-out-of-memory");
                        if model.find(*t, k).is_some() {
                            return viol("insert", "oom-on-update", format!("step {step}: replacing the value of an existing key failed with OutOfMemory"));
                        }
                    }
                    Err(e) => return viol("insert", "error", format!("step {step}: insert failed: {e}")),
                }
            }
            Op::Get(t, k) => {
                obs.inc("host:get");
                if popped[*t] {
                    obs.inc("get_after_pop");
                }
                let Some(kv) = mk_key(&mut vm, k, &mut hold) else {
                    obs.inc("host:operand-allocation-failed");
                    continue;
                };
                let raw = tab(&mut tabs[*t]).get(&kv).copied();
                let got = raw.map(|v| val_of(&v, &tabs)).unwrap_or(MV::Nil);
                let want = model.find(*t, k).map(|i| model.tables[*t][i].1.clone()).unwrap_or(MV::Nil);
                if got != want {
                    return viol("get", "result", format!("step {step}: t{t}[{k:?}] = {got:?}, the model says {want:?}"));
                }
            }
            Op::Remove(t, k) => {
                obs.inc("host:remove");
                let Some(kv) = mk_key(&mut vm, k, &mut hold) else {
                    obs.inc("host:operand-allocation-failed");
                    continue;
                };
                let _ = tab(&mut tabs[*t]).remove(kv);
                if let Some(i) = model.find(*t, k) {
                    model.tables[*t].remove(i);
                }
            }
            Op::Append(t, v) => {
                obs.inc("host:append");
                if popped[*t] {
                    obs.inc("append_after_pop");
                }
                let vv = match v {
                    V::Int(i) => Value::Integer(*i),
                    V::Str(s) => mk_str!(s),
                    V::Tab(i) => tabs[*i],
                };
                match tab(&mut tabs[*t]).append(vv) {
                    Ok(_) => model.append(*t, mv(v)),
                    Err(ExecutionErrorPayload::OutOfMemory) if case.memory_limit.is_some() => obs.inc("host:append-out-of-memory"),
                    Err(e) => return viol("append", "error", format!("step {step}: append failed: {e}")),
                }
            }
            Op::Pop(t) => {
                obs.inc("host:pop");
                popped[*t] = true;
                let raw = tab(&mut tabs[*t]).pop();
                let got = raw.map(|v| val_of(&v, &tabs));
                let want = model.tables[*t].pop().map(|(_, v)| v).unwrap_or(MV::Nil);
                match got {
                    Ok(g) if g == want => {}
                    other => return viol("pop", "result", format!("step {step}: pop(t{t}) = {other:?}, the model says {want:?}")),
                }
            }
            Op::Len(t) => {
                obs.inc("host:len");
                let got = tab(&mut tabs[*t]).len();
                if got != model.tables[*t].len() {
                    return viol("len", "result", format!("step {step}: len(t{t}) = {got}, the model says {}", model.tables[*t].len()));
                }
            }
            Op::NthKey(t, i) | Op::Row(t, i) => {
                obs.inc("host:nth_key");
                let got = key_of(&tab(&mut tabs[*t]).nth_key(*i));
                let want = model.tables[*t].get(*i).map(|(k, _)| k.clone()).unwrap_or(K::Nil);
                if !k_eq(&got, &want) {
                    return viol("nth_key", "result", format!("step {step}: nth_key(t{t}, {i}) = {got:?}, the model says {want:?}"));
                }
            }
            Op::Iterate(_) => {
                obs.inc("host:iterate");
            }
        }
        // full comparison of every table after every operation
        for t in 0..case.tables {
            let tb = tab(&mut tabs[t]);
            let listed: Vec<K> = tb.keys().iter().map(key_of).collect();
            let want_keys: Vec<K> = model.tables[t].iter().map(|(k, _)| k.clone()).collect();
            if listed.len() != want_keys.len() || !listed.iter().zip(want_keys.iter()).all(|(a, b)| k_eq(a, b)) {
                return viol(op_name(op), "key-order", format!("step {step} after {op:?}: t{t} lists keys {listed:?}, the model says {want_keys:?}"));
            }
            let hash_len = {
                let map: &cao_lang::collections::hash_map::CaoHashMap<Value, Value, _> = tb;
                map.len()
            };
            if hash_len != want_keys.len() {
                return viol(op_name(op), "hash-part-size", format!("step {step} after {op:?}: t{t} lists {} keys but its hash part holds {hash_len} entries", want_keys.len()));
            }
            let entries: Vec<(K, MV)> = {
                let tabs_ro = tabs.clone();
                let tb = tab(&mut tabs[t]);
                tb.iter().map(|(k, v)| (key_of(k), val_of(v, &tabs_ro))).collect()
            };
            if entries.len() != model.tables[t].len() || !entries.iter().zip(model.tables[t].iter()).all(|((k1, v1), (k2, v2))| k_eq(k1, k2) && v1 == v2) {
                return viol(op_name(op), "iteration", format!("step {step} after {op:?}: iterating t{t} yields {entries:?}, the model says {:?}", model.tables[t]));
            }
        }
        obs.inc("ops_compared");
    }
    obs.nontrivial = case.ops.len() >= 10;
    Verdict::Ok
}

fn op_name(op: &Op) -> &'static str {
    match op {
        Op::Set(..) => "insert",
        Op::Get(..) => "get",
        Op::Remove(..) => "remove",
        Op::Append(..) => "append",
        Op::Pop(..) => "pop",
        Op::Len(..) => "len",
        Op::NthKey(..) | Op::Row(..) => "nth_key",
        Op::Iterate(..) => "iterate",
    }
}

// ---------------------------------------------------------------- script side

fn key_card(k: &K) -> Card {
    match k {
        K::Nil => nil(),
        K::Int(i) => int(*i),
        K::Real(b) => real(f64::from_bits(*b)),
        K::Str(s) => strc(s),
    }
}

fn to_script(case: &Case) -> Module {
    let names: Vec<String> = (0..case.tables).map(|i| format!("t{i}")).collect();
    let mut cards = vec![set("_", nil())];
    for n in &names {
        cards.push(set(n, CardBody::CreateTable.into()));
    }
    // aliases: every table is also reachable through a second variable, a table field and a captured variable
    cards.push(set("holder", CardBody::CreateTable.into()));
    for (i, n) in names.iter().enumerate() {
        cards.push(set(format!("alias{i}"), read(n)));
        cards.push(setprop(read(n), read("holder"), strc(format!("f{i}"))));
    }
    cards.push(set("via_closure", closure(&["m"], vec![un("ret", un("len", read("t0")))])));
    let access = |t: usize, step: usize| -> Card {
        match step % 3 {
            0 => read(format!("t{t}")),
            1 => read(format!("alias{t}")),
            _ => read(format!("holder.f{t}")),
        }
    };
    for (step, op) in case.ops.iter().enumerate() {
        let c = match op {
            Op::Set(t, k, v) => {
                let vc = match v {
                    V::Int(i) => int(*i),
                    V::Str(s) => strc(s),
                    V::Tab(i) => read(format!("t{i}")),
                };
                // a table stored in itself (directly or not) would make the value cyclic: the generator avoids it
                setprop(vc, access(*t, step), key_card(k))
            }
            Op::Get(t, k) => discard(native("log2", vec![int(step as i64), bin("getprop", access(*t, step), key_card(k))])),
            Op::Remove(..) => continue, // no card removes a key
            Op::Append(t, v) => {
                let vc = match v {
                    V::Int(i) => int(*i),
                    V::Str(s) => strc(s),
                    V::Tab(i) => read(format!("t{i}")),
                };
                bin("append", vc, access(*t, step))
            }
            Op::Pop(t) => discard(native("log2", vec![int(step as i64), un("pop", access(*t, step))])),
            Op::Len(t) => discard(native("log2", vec![int(step as i64), un("len", access(*t, step))])),
            Op::NthKey(t, i) | Op::Row(t, i) => {
                // only in range (out of range is unspecified); guarded at run time by the length
                bin(
                    "iftrue",
                    bin("less", int(*i as i64), un("len", access(*t, step))),
                    comp(vec![discard(native("log2", vec![int(step as i64), bin("get", access(*t, step), int(*i as i64))]))]),
                )
            }
            Op::Iterate(t) => foreach(Some("i"), Some("k"), Some("v"), access(*t, step), comp(vec![set("_", nil()), discard(native("log3", vec![read("i"), read("k"), read("v")]))])),
        };
        cards.push(c);
    }
    cards.push(discard(native("log1", vec![dyncall(read("via_closure"), vec![int(0)])])));
    for n in &names {
        cards.push(discard(native("log1", vec![read(n)])));
    }
    let mut m = Module::default();
    m.functions.push(("main".into(), Function { arguments: vec![], cards }));
    m
}

impl Engine for TableEngine {
    type Case = Case;
    fn name(&self) -> &'static str {
        "table"
    }
    fn gen(&mut self, rng: &mut Prng, tier: Tier) -> Case {
        let script = rng.chance(1, 2);
        let tables = rng.range(1, 3) as usize;
        let memory_limit = if !script && rng.chance(1, 4) { Some(*rng.pick(&[1200usize, 2000, 3000, 5000, 9000])) } else { None };
        let n = if memory_limit.is_some() { rng.range(40, 400) } else { rng.range(5, if tier == Tier::Quick { 80 } else { 120 }) } as usize;
        let profile = if memory_limit.is_some() { 2 } else { rng.below(3) };
        let mut ops = Vec::new();
        for _ in 0..n {
            let t = rng.below(tables);
            let w: [u32; 9] = match profile {
                0 => [30, 12, 4, 14, 6, 6, 6, 4, 4],
                1 => [14, 14, 10, 14, 14, 6, 6, 4, 4],
                _ => [10, 10, 2, 30, 12, 6, 8, 4, 6],
            };
            let op = match rng.weighted(&w) {
                0 => {
                    let v = gen_val(rng, tables);
                    // no cycles: a table may only hold tables with a higher number
                    let v = match v {
                        V::Tab(i) if i <= t => V::Int(i as i64),
                        other => other,
                    };
                    Op::Set(t, gen_key(rng), v)
                }
                1 => Op::Get(t, gen_key(rng)),
                2 => Op::Remove(t, gen_key(rng)),
                3 => {
                    let v = gen_val(rng, tables);
                    let v = match v {
                        V::Tab(i) if i <= t => V::Int(i as i64),
                        other => other,
                    };
                    Op::Append(t, v)
                }
                4 => Op::Pop(t),
                5 => Op::Len(t),
                6 => Op::NthKey(t, rng.below(8)),
                7 => Op::Iterate(t),
                _ => Op::Row(t, rng.below(6)),
            };
            if script && matches!(op, Op::Remove(..)) {
                continue;
            }
            ops.push(op);
        }
        // two distinct tables with equal contents stored one after the other under one key: the field refers to the
        // second one (visible once one of them changes)
        if tables >= 3 && rng.chance(1, 3) {
            let k = gen_key(rng);
            let (a, b) = if rng.chance(1, 2) { (1, 2) } else { (2, 1) };
            let pattern = vec![
                Op::Set(0, k.clone(), V::Tab(a)),
                Op::Set(0, k.clone(), V::Tab(b)),
                Op::Append(b, V::Int(77)),
                Op::Get(0, k.clone()),
                Op::Append(a, V::Str("only-in-the-first".into())),
                Op::Get(0, k.clone()),
                Op::Len(0),
            ];
            for (i, op) in pattern.into_iter().enumerate() {
                ops.insert(i, op);
            }
        }
        Case { script, tables, ops, memory_limit }
    }
    fn run(&mut self, case: &Case, obs: &mut Obs) -> Verdict {
        if case.script {
            obs.inc("histories:script");
            let m = to_script(case);
            if std::env::var("CAOVERIF_PP").is_ok() {
                eprintln!("{}", crate::pp::module(&m, ""));
            }
            let pc = ProgCase { module: m, inputs: vec![], scenario: "table-history".into() };
            judge("C07:script", &pc, cfg!(debug_assertions), obs)
        } else {
            obs.inc("histories:host");
            run_host(case, obs)
        }
    }
    fn shrink(&self, case: &Case) -> Vec<Case> {
        let mut out = Vec::new();
        let n = case.ops.len();
        let mut chunk = n / 2;
        while chunk >= 1 {
            let mut start = 0;
            while start < n {
                let mut c = case.clone();
                let end = (start + chunk).min(n);
                c.ops.drain(start..end);
                out.push(c);
                start += chunk;
            }
            if chunk == 1 {
                break;
            }
            chunk /= 2;
        }
        out
    }
}
