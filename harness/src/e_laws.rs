//! C19: equality, hashing and ordering of runtime values are mutually coherent (algebraic-law monitor).
use crate::prng::Prng;
use crate::runner::{Engine, Obs, Tier, Verdict};
use crate::vmrun::{new_vm, Aux, VmConfig};
use cao_lang::prelude::*;
use serde::{Deserialize, Serialize};
use std::cmp::Ordering;
use std::hash::{Hash, Hasher};

#[derive(Clone, Debug, Serialize, Deserialize, PartialEq)]
pub enum VSpec {
    Nil,
    Int(i64),
    Real(u64),
    Str(String),
    Table(Vec<(VSpec, VSpec)>),
    Func(u32),
    Native(String),
}

#[derive(Clone, Serialize, Deserialize)]
pub struct Case {
    pub pool: Vec<VSpec>,
    pub triples: Vec<(usize, usize, usize)>,
    /// pool entries (tables) that are built with a different growth history: extra entries are added after the real
    /// ones and removed again, so the content and order are the same but the hash part is larger
    #[serde(default)]
    pub grown: Vec<(usize, usize)>,
}

pub struct LawsEngine {}

fn real(f: f64) -> VSpec {
    VSpec::Real(f.to_bits())
}

fn gen_scalar(rng: &mut Prng) -> VSpec {
    match rng.below(12) {
        0 => VSpec::Nil,
        1..=4 => VSpec::Int(*rng.pick(&[0i64, 1, -1, 2, 3, 4, 5, 7, 255, -255, 1 << 31, (1 << 53) - 1, 1 << 53, -(1 << 53), 9, 10, 100, i64::MAX, i64::MIN, i64::MAX - 1])),
        5..=7 => real(*rng.pick(&[0.0f64, -0.0, 1.0, -1.0, 0.5, 2.0, 3.0, 2.5, 4.0, 5.0, 1e10, -1e10, 9007199254740992.0, 1.5, 255.0, 0.1, f64::INFINITY, f64::NEG_INFINITY, f64::NAN, 3.0000000000000004,
            // distinct reals closer to each other than machine epsilon
            0.3, 0.30000000000000004, 1.5e-16, 3e-16, 1.0000000000000002, -1.5e-16])),
        _ => VSpec::Str(rng.pick(&["", "a", "b", "ab", "ba", "abc", "abd", "héé", "key", "value", "🔥", "0", "1"]).to_string()),
    }
}

fn gen_value(rng: &mut Prng, depth: usize) -> VSpec {
    if depth == 0 || rng.chance(3, 5) {
        if rng.chance(1, 14) {
            return if rng.chance(1, 2) { VSpec::Func(rng.below(3) as u32) } else { VSpec::Native("log1".into()) };
        }
        return gen_scalar(rng);
    }
    let n = rng.below(4);
    let mut entries: Vec<(VSpec, VSpec)> = Vec::new();
    for i in 0..n {
        let k = match rng.below(4) {
            0 => VSpec::Int(i as i64),
            1 => VSpec::Str(rng.pick(&["k", "n", "a", "b"]).to_string()),
            2 => VSpec::Int(rng.range(0, 3)),
            _ => VSpec::Nil,
        };
        if entries.iter().any(|(kk, _)| kk == &k) {
            continue;
        }
        entries.push((k, gen_value(rng, depth - 1)));
    }
    VSpec::Table(entries)
}

fn build(vm: &mut Vm<Aux>, s: &VSpec) -> Value {
    match s {
        VSpec::Nil => Value::Nil,
        VSpec::Int(i) => Value::Integer(*i),
        VSpec::Real(b) => Value::Real(f64::from_bits(*b)),
        VSpec::Str(x) => Value::Object(vm.init_string(x).unwrap().into_inner()),
        VSpec::Table(es) => {
            let t = vm.init_table().unwrap().into_inner();
            for (k, v) in es {
                let kv = build(vm, k);
                let vv = build(vm, v);
                unsafe { (*t.as_ptr()).as_table_mut().unwrap().insert(kv, vv).unwrap() };
            }
            Value::Object(t)
        }
        VSpec::Func(a) => Value::Object(vm.init_function(Handle::from_u32(7 + a), *a).unwrap().into_inner()),
        VSpec::Native(n) => Value::Object(vm.init_native_function(Handle::from(n.as_str())).unwrap().into_inner()),
    }
}

/// is the value in the class on which equality has to be an equivalence (no NaN, no function values)?
fn judged(s: &VSpec) -> bool {
    match s {
        VSpec::Nil | VSpec::Int(_) | VSpec::Str(_) => true,
        VSpec::Real(b) => !f64::from_bits(*b).is_nan(),
        VSpec::Table(es) => es.iter().all(|(k, v)| judged(k) && judged(v)),
        VSpec::Func(_) | VSpec::Native(_) => false,
    }
}

fn has_signed_zero(s: &VSpec) -> bool {
    match s {
        VSpec::Real(b) => f64::from_bits(*b) == 0.0,
        VSpec::Table(es) => es.iter().any(|(k, v)| has_signed_zero(k) || has_signed_zero(v)),
        _ => false,
    }
}

fn hash_of(v: &Value) -> u64 {
    let mut h = std::collections::hash_map::DefaultHasher::new();
    v.hash(&mut h);
    h.finish()
}

/// numeric reading used when a value is compared with a number
fn numeric(s: &VSpec) -> Option<f64> {
    match s {
        VSpec::Nil => Some(0.0),
        VSpec::Int(i) => Some(*i as f64),
        VSpec::Real(b) => Some(f64::from_bits(*b)),
        VSpec::Str(x) => Some(x.len() as f64),
        VSpec::Table(es) => Some(es.len() as f64),
        _ => None,
    }
}

fn exact_small(s: &VSpec) -> bool {
    match s {
        VSpec::Int(i) => i.unsigned_abs() <= (1u64 << 53),
        VSpec::Real(b) => {
            let f = f64::from_bits(*b);
            f.is_finite() && f.abs() <= 9007199254740992.0
        }
        VSpec::Nil | VSpec::Str(_) | VSpec::Table(_) => true,
        _ => false,
    }
}

fn viol(law: &str, d: String) -> Verdict {
    Verdict::violation(format!("C19:{law}"), d)
}

fn show(s: &VSpec) -> String {
    match s {
        VSpec::Real(b) => format!("Real({:?})", f64::from_bits(*b)),
        other => format!("{other:?}"),
    }
}

impl Engine for LawsEngine {
    type Case = Case;
    fn name(&self) -> &'static str {
        "laws"
    }
    fn gen(&mut self, rng: &mut Prng, tier: Tier) -> Case {
        let n = if tier == Tier::Quick { 24 } else { 40 };
        let mut pool: Vec<VSpec> = (0..n).map(|_| gen_value(rng, 3)).collect();
        // equal content in distinct objects, equal content in a different insertion order
        for i in 0..6 {
            let c = pool[rng.below(n)].clone();
            if let VSpec::Table(es) = &c {
                if es.len() >= 2 && i % 2 == 0 {
                    let mut r = es.clone();
                    r.reverse();
                    pool.push(VSpec::Table(r));
                    continue;
                }
            }
            pool.push(c);
        }
        // equal tables with different histories
        let mut grown = Vec::new();
        for _ in 0..4 {
            let i = rng.below(n);
            if let VSpec::Table(_) = &pool[i] {
                grown.push((pool.len(), *rng.pick(&[6usize, 12, 30, 70])));
                pool.push(pool[i].clone());
            }
        }
        // neighbours of integers already in the pool (distinct integers are never equal, however large)
        for _ in 0..4 {
            let i = rng.below(n);
            if let VSpec::Int(x) = &pool[i] {
                let y = if rng.chance(1, 2) { x.wrapping_add(1) } else { x.wrapping_sub(1) };
                pool.push(VSpec::Int(y));
            }
        }
        for _ in 0..3 {
            let i = rng.below(n);
            if let VSpec::Real(b) = &pool[i] {
                let f = f64::from_bits(*b);
                if f.is_finite() {
                    // the next representable real
                    pool.push(VSpec::Real(if f >= 0.0 { b + 1 } else { b - 1 }));
                }
            }
        }
        if rng.chance(1, 3) {
            let base = *rng.pick(&[1i64 << 53, -(1i64 << 53), i64::MAX - 1, i64::MIN, (1i64 << 60) + 2, 1i64 << 62]);
            pool.push(VSpec::Int(base));
            pool.push(VSpec::Int(base + 1));
        }
        let m = pool.len();
        let triples = (0..(if tier == Tier::Quick { 400 } else { 2000 })).map(|_| (rng.below(m), rng.below(m), rng.below(m))).collect();
        Case { pool, triples, grown }
    }
    fn run(&mut self, case: &Case, obs: &mut Obs) -> Verdict {
        let cfg = VmConfig::default();
        let mut vm = new_vm(&cfg, &[]);
        let mut vals: Vec<Value> = case.pool.iter().map(|s| build(&mut vm, s)).collect();
        for (i, extra) in case.grown.iter().copied() {
            if let Some(Value::Object(o)) = vals.get(i).copied() {
                if let Some(t) = unsafe { (*o.as_ptr()).as_table_mut() } {
                    let before = t.len();
                    for x in 0..extra {
                        let k = vm.init_string(&format!("extra-{x}")).unwrap().into_inner();
                        t.insert(Value::Object(k), Value::Integer(x as i64)).unwrap();
                    }
                    for _ in 0..extra {
                        let _ = t.pop();
                    }
                    if t.len() == before {
                        obs.inc("tables_with_longer_history");
                    }
                }
            }
        }
        vals.truncate(case.pool.len());
        let n = vals.len();
        for i in 0..n {
            let (a, sa) = (vals[i], &case.pool[i]);
            let _ = a.as_bool();
            let _ = hash_of(&a);
            obs.inc("values");
            if judged(sa) && a != a {
                return viol("reflexive", format!("{} is not equal to itself", show(sa)));
            }
            for j in 0..n {
                let (b, sb) = (vals[j], &case.pool[j]);
                obs.inc("pairs");
                let eq_ab = a == b;
                let eq_ba = b == a;
                if eq_ab != eq_ba && judged(sa) && judged(sb) {
                    return viol("symmetric", format!("{} == {} is {eq_ab} but the reverse is {eq_ba}", show(sa), show(sb)));
                }
                // structural equality of the specs is what content equality means (tables order sensitive)
                if judged(sa) && judged(sb) {
                    let want = spec_eq(sa, sb);
                    if eq_ab != want {
                        return viol("content-equality", format!("{} == {} is {eq_ab}, by content it is {want}", show(sa), show(sb)));
                    }
                }
                if eq_ab && judged(sa) && judged(sb) && !has_signed_zero(sa) && !has_signed_zero(sb) && hash_of(&a) != hash_of(&b) {
                    return viol("hash-consistency", format!("{} == {} but they hash differently", show(sa), show(sb)));
                }
                let lt = a < b;
                let gt = b < a;
                let le = a <= b;
                if eq_ab && (lt || gt) {
                    return viol("order-vs-equality", format!("{} == {} but one is less than the other", show(sa), show(sb)));
                }
                if lt && gt {
                    return viol("asymmetric", format!("{} < {} and {} < {} both hold", show(sa), show(sb), show(sb), show(sa)));
                }
                if lt && !le {
                    return viol("less-implies-less-or-equal", format!("{} < {} holds but <= does not", show(sa), show(sb)));
                }
                // numeric order where at least one side is a number
                let num_a = matches!(sa, VSpec::Int(_) | VSpec::Real(_));
                let num_b = matches!(sb, VSpec::Int(_) | VSpec::Real(_));
                if let (VSpec::Int(x), VSpec::Int(y)) = (sa, sb) {
                    obs.inc("integer_order_pairs");
                    let got = a.partial_cmp(&b);
                    if got != Some(x.cmp(y)) {
                        return viol("integer-order", format!("{x} compared with {y}: got {got:?}"));
                    }
                    if (a < b) != (x < y) || (a <= b) != (x <= y) || (a > b) != (x > y) || (a >= b) != (x >= y) {
                        return viol("integer-order", format!("the comparison operators on {x} and {y} disagree with the integers' order"));
                    }
                }
                if (num_a || num_b) && exact_small(sa) && exact_small(sb) {
                    if let (Some(x), Some(y)) = (numeric(sa), numeric(sb)) {
                        if !x.is_nan() && !y.is_nan() {
                            obs.inc("numeric_order_pairs");
                            let want = x.partial_cmp(&y).unwrap();
                            let got = a.partial_cmp(&b);
                            if got != Some(want) {
                                return viol("numeric-order", format!("{} compared with {}: got {got:?}, numeric order says {want:?}", show(sa), show(sb)));
                            }
                        }
                    }
                }
                // two strings / two tables: by length
                let both_str = matches!(sa, VSpec::Str(_)) && matches!(sb, VSpec::Str(_));
                let both_tab = matches!(sa, VSpec::Table(_)) && matches!(sb, VSpec::Table(_)) && judged(sa) && judged(sb);
                if both_str || both_tab {
                    let (la, lb) = (numeric(sa).unwrap(), numeric(sb).unwrap());
                    let got = a.partial_cmp(&b);
                    let want = if spec_eq(sa, sb) {
                        Some(Ordering::Equal)
                    } else if la < lb {
                        Some(Ordering::Less)
                    } else if la > lb {
                        Some(Ordering::Greater)
                    } else {
                        None
                    };
                    obs.inc("length_order_pairs");
                    if got != want {
                        return viol("length-order", format!("{} compared with {}: got {got:?}, ordering by length says {want:?}", show(sa), show(sb)));
                    }
                }
                // an equal key in a distinct object finds the entry
                if eq_ab && i != j && judged(sa) && matches!(sa, VSpec::Int(_) | VSpec::Str(_) | VSpec::Nil) {
                    let t = vm.init_table().unwrap().into_inner();
                    let tab = unsafe { (*t.as_ptr()).as_table_mut().unwrap() };
                    tab.insert(a, Value::Integer(77)).unwrap();
                    if tab.get(&b).copied() != Some(Value::Integer(77)) {
                        return viol("equal-key-lookup", format!("a value stored under {} is not found under the equal key {}", show(sa), show(sb)));
                    }
                    obs.inc("equal_key_lookups");
                }
            }
        }
        // the comparison cards of a script give the same answers as the traits
        {
            let lit = |s: &VSpec| -> Option<cao_lang::compiler::Card> {
                Some(match s {
                    VSpec::Nil => crate::gen::nil(),
                    VSpec::Int(i) => crate::gen::int(*i),
                    VSpec::Real(b) if f64::from_bits(*b).is_finite() => crate::gen::real(f64::from_bits(*b)),
                    VSpec::Str(x) => crate::gen::strc(x.as_str()),
                    _ => return None,
                })
            };
            let mut cards = vec![crate::gen::set("_", crate::gen::nil())];
            let mut expect: Vec<(usize, usize)> = Vec::new();
            for (i, j, _) in case.triples.iter().copied().take(60) {
                if let (Some(a), Some(b)) = (lit(&case.pool[i]), lit(&case.pool[j])) {
                    use crate::gen::{bin, discard, native};
                    cards.push(discard(native("log3", vec![bin("less", a.clone(), b.clone()), bin("le", a.clone(), b.clone()), bin("eq", a.clone(), b.clone())])));
                    cards.push(discard(native("log1", vec![bin("ne", a, b)])));
                    expect.push((i, j));
                }
            }
            if !expect.is_empty() {
                let mut m = cao_lang::compiler::Module::default();
                m.functions.push(("main".into(), cao_lang::compiler::Function { arguments: vec![], cards }));
                if let Ok(program) = cao_lang::compiler::compile(m, cao_lang::compiler::CompileOptions::new()) {
                    let mut vm2 = new_vm(&cfg, &[]);
                    if vm2.run(&program).is_ok() {
                        let log = &vm2.auxiliary_data.log;
                        for (n, (i, j)) in expect.iter().enumerate() {
                            let (a, b) = (vals[*i], vals[*j]);
                            let want = [(a < b) as i64, (a <= b) as i64, (a == b) as i64];
                            let got: Vec<i64> = log.get(2 * n).map(|(_, args)| args.iter().map(|d| if let crate::dval::DVal::Int(x) = d { *x } else { -1 }).collect()).unwrap_or_default();
                            let got_ne = log.get(2 * n + 1).and_then(|(_, args)| args.first().cloned());
                            if got != want || got_ne != Some(crate::dval::DVal::Int((a != b) as i64)) {
                                return viol(
                                    "cards-vs-traits",
                                    format!("{} and {}: the Less / LessOrEq / Equals cards give {got:?} and NotEquals {got_ne:?}; the value traits give {want:?} and {}", show(&case.pool[*i]), show(&case.pool[*j]), (a != b) as i64),
                                );
                            }
                            obs.inc("card_comparisons_checked");
                        }
                    }
                }
            }
        }
        for (i, j, k) in case.triples.iter().copied() {
            let (a, b, c) = (vals[i], vals[j], vals[k]);
            if judged(&case.pool[i]) && judged(&case.pool[j]) && judged(&case.pool[k]) {
                obs.inc("triples");
                if a == b && b == c && a != c {
                    return viol("transitive", format!("{} == {} == {} but the first is not equal to the last", show(&case.pool[i]), show(&case.pool[j]), show(&case.pool[k])));
                }
            }
        }
        obs.nontrivial = true;
        Verdict::Ok
    }
    fn shrink(&self, case: &Case) -> Vec<Case> {
        let mut out = Vec::new();
        let n = case.pool.len();
        if n > 2 {
            for half in 0..2 {
                let mut c = case.clone();
                let mid = n / 2;
                c.pool = if half == 0 { c.pool[..mid].to_vec() } else { c.pool[mid..].to_vec() };
                c.grown = if half == 0 { c.grown.iter().filter(|(g, _)| *g < mid).cloned().collect() } else { c.grown.iter().filter(|(g, _)| *g >= mid).map(|(g, e)| (*g - mid, *e)).collect() };
                let m = c.pool.len();
                c.triples = c.triples.iter().filter(|(a, b, d)| *a < m && *b < m && *d < m).cloned().collect();
                out.push(c);
            }
            for i in (0..n).rev() {
                let mut c = case.clone();
                c.pool.remove(i);
                c.grown = c.grown.iter().filter(|(g, _)| *g != i).map(|(g, e)| (if *g > i { *g - 1 } else { *g }, *e)).collect();
                let m = c.pool.len();
                c.triples = c.triples.iter().filter(|(a, b, d)| *a < m && *b < m && *d < m).cloned().collect();
                out.push(c);
            }
        }
        out
    }
}

fn spec_eq(a: &VSpec, b: &VSpec) -> bool {
    match (a, b) {
        (VSpec::Nil, VSpec::Nil) => true,
        (VSpec::Int(x), VSpec::Int(y)) => x == y,
        (VSpec::Real(x), VSpec::Real(y)) => f64::from_bits(*x) == f64::from_bits(*y),
        (VSpec::Str(x), VSpec::Str(y)) => x == y,
        (VSpec::Table(x), VSpec::Table(y)) => x.len() == y.len() && x.iter().zip(y.iter()).all(|((k1, v1), (k2, v2))| spec_eq(k1, k2) && spec_eq(v1, v2)),
        _ => false,
    }
}
