fn main() { caoverif::hello(); }
