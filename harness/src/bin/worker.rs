use caoverif::runner::{run_engine, Opts};

fn main() {
    if std::env::args().nth(1).as_deref() == Some("selftest") {
        println!("caoverif-selftest-ok");
        return;
    }
    // the reference interpreter recurses; give the worker a roomy stack (sanitizer frames are large)
    let mb: usize = std::env::var("CAOVERIF_STACK_MB").ok().and_then(|s| s.parse().ok()).unwrap_or(256);
    let h = std::thread::Builder::new().stack_size(mb << 20).spawn(real_main).expect("spawn worker thread");
    let code = h.join().unwrap_or(70);
    std::process::exit(code);
}

fn real_main() -> i32 {
    let args: Vec<String> = std::env::args().collect();
    if args.len() < 2 {
        eprintln!("usage: worker <engine> [options]");
        return 64;
    }
    let opts = Opts::from_args(&args[2..]);
    let code = match args[1].as_str() {
        "hashmap" => {
            let mut e = caoverif::e_hashmap::HashMapEngine::default();
            e.avoid_zero_hash = opts.x("avoid-zero-hash").is_some();
            run_engine(&mut e, &opts)
        }
        "handletable" => run_engine(&mut caoverif::e_handletable::HandleTableEngine::default(), &opts),
        "stacks" => run_engine(&mut caoverif::e_stacks::StacksEngine::default(), &opts),
        "module" => run_engine(&mut caoverif::e_module::ModuleEngine::default(), &opts),
        "prog" | "prog-closures" => {
            let mut e = caoverif::e_prog::ProgEngine {
                pid: if args[1] == "prog" { "C01" } else { "C06" },
                closures: args[1] == "prog-closures",
                dev_profile: cfg!(debug_assertions),
            };
            run_engine(&mut e, &opts)
        }
        "resolve" => run_engine(&mut caoverif::e_resolve::ResolveEngine {}, &opts),
        "total" => run_engine(&mut caoverif::e_total::TotalEngine {}, &opts),
        "gc" => {
            let san = opts.x("sanitizer").is_some();
            let mut e = caoverif::e_gc::GcEngine::new(san, opts.x_u64("max-singles", 400) as usize, opts.x("source").unwrap_or("mixed"));
            run_engine(&mut e, &opts)
        }
        "bytecode" => run_engine(&mut caoverif::e_bytecode::BytecodeEngine {}, &opts),
        "budget" => run_engine(&mut caoverif::e_budget::BudgetEngine {}, &opts),
        "lifecycle" => {
            let mut e = caoverif::e_lifecycle::LifecycleEngine { light: opts.x("light").is_some(), property: opts.x("property").unwrap_or("c17").to_string() };
            run_engine(&mut e, &opts)
        }
        "laws" => run_engine(&mut caoverif::e_laws::LawsEngine {}, &opts),
        "trace" => run_engine(&mut caoverif::e_trace::TraceEngine {}, &opts),
        "table" => run_engine(&mut caoverif::e_table::TableEngine {}, &opts),
        "stdlib" => run_engine(&mut caoverif::e_stdlib::StdlibEngine {}, &opts),
        "host" => run_engine(&mut caoverif::e_host::HostEngine {}, &opts),
        "serde" => run_engine(&mut caoverif::e_serde::SerdeEngine {}, &opts),
        other => {
            eprintln!("unknown engine {other}");
            64
        }
    };
    code
}
