//! The same collections with element types that have no drop glue (u64 / i64 / u32): code paths that are
//! specialised on `needs_drop` (clear, Drop) are different ones for these, and the drop-counting element types of
//! the main histories never reach them. Small seeded histories against std models, full comparison after every
//! operation; a logical guard reports a table without an empty slot before a probe for an absent key could spin.
use crate::prng::Prng;
use crate::runner::Obs;
use cao_lang::verif_hooks::SysAllocator;
use cao_lang::collections::bounded_stack::BoundedStack;
use cao_lang::collections::handle_table::HandleTable;
use cao_lang::collections::hash_map::CaoHashMap;
use std::collections::BTreeMap;

type V = Result<(), (String, String)>;

fn fail(what: &str, d: String) -> V {
    Err((what.to_string(), d))
}

pub fn hashmap_plain(seed: u64, obs: &mut Obs) -> V {
    let mut rng = Prng::new(seed ^ 0x51a1);
    let cap = *rng.pick(&[0usize, 1, 4, 8, 16]);
    let mut map: CaoHashMap<u64, i64> = match CaoHashMap::with_capacity_in(cap, SysAllocator) {
        Ok(m) => m,
        Err(e) => return fail("plain:with_capacity", format!("{e:?}")),
    };
    let mut model: BTreeMap<u64, i64> = BTreeMap::new();
    let universe = rng.range(3, 40) as u64;
    let n = rng.range(10, if cfg!(miri) { 30 } else { 120 });
    for step in 0..n {
        let k = rng.next_u64() % universe;
        let v = rng.range(-50, 50);
        let op = rng.weighted(&[30, 12, 10, 8, 6, 4]);
        let name = ["insert", "remove", "get", "contains", "clear", "entry"][op];
        match op {
            0 => {
                if map.insert(k, v).is_err() {
                    return fail("plain:insert:error", format!("step {step}: insert({k}) failed"));
                }
                model.insert(k, v);
            }
            1 => {
                let got = map.remove(&k);
                let want = model.remove(&k);
                if got != want {
                    return fail("plain:remove:result", format!("step {step}: remove({k}) = {got:?}, model says {want:?}"));
                }
            }
            2 => {
                let got = map.get(&k).copied();
                if got != model.get(&k).copied() {
                    return fail("plain:get:result", format!("step {step}: get({k}) = {got:?}, model says {:?}", model.get(&k)));
                }
            }
            3 => {
                if map.contains(&k) != model.contains_key(&k) {
                    return fail("plain:contains:result", format!("step {step}: contains({k}) = {}, model says {}", map.contains(&k), model.contains_key(&k)));
                }
            }
            4 => {
                map.clear();
                model.clear();
                obs.inc("plain:clears");
            }
            _ => {
                let got = match map.entry(k) {
                    Ok(e) => *e.or_insert_with(|| v),
                    Err(e) => return fail("plain:entry:error", format!("step {step}: entry({k}) failed: {e:?}")),
                };
                let want = *model.entry(k).or_insert(v);
                if got != want {
                    return fail("plain:entry:result", format!("step {step}: entry({k}).or_insert_with = {got}, model says {want}"));
                }
            }
        }
        if map.len() != model.len() {
            return fail(&format!("plain:{name}:len"), format!("step {step} after {name}({k}): len {} , model says {}", map.len(), model.len()));
        }
        let mut listed: Vec<(u64, i64)> = map.iter().map(|(k, v)| (*k, *v)).collect();
        listed.sort();
        let want: Vec<(u64, i64)> = model.iter().map(|(k, v)| (*k, *v)).collect();
        if listed != want {
            return fail(&format!("plain:{name}:contents"), format!("step {step} after {name}({k}): the map holds {listed:?}, the model {want:?}"));
        }
        for kk in 0..universe {
            if map.get(&kk).copied() != model.get(&kk).copied() {
                return fail(&format!("plain:{name}:lookup"), format!("step {step} after {name}({k}): get({kk}) = {:?}, the model says {:?}", map.get(&kk), model.get(&kk)));
            }
        }
        obs.inc("plain:ops_compared");
    }
    Ok(())
}

pub fn handletable_plain(seed: u64, obs: &mut Obs) -> V {
    let mut rng = Prng::new(seed ^ 0x7ab1e);
    let cap = *rng.pick(&[0usize, 1, 4, 8, 16, 33]);
    let mut t: HandleTable<u32> = match HandleTable::with_capacity(cap, SysAllocator) {
        Ok(t) => t,
        Err(e) => return fail("plain:with_capacity", format!("{e:?}")),
    };
    let mut model: BTreeMap<u32, u32> = BTreeMap::new();
    let universe = rng.range(3, 40) as u32;
    let stride = *rng.pick(&[1u32, 8, 16, 64]);
    let n = rng.range(10, if cfg!(miri) { 30 } else { 120 });
    let h = |k: u32| crate::e_handletable::mk_handle(1 + k * stride);
    for step in 0..n {
        // every probe for an absent key needs an empty slot
        let occupied = t.iter().count();
        if occupied >= t.capacity() && t.capacity() > 0 {
            return fail("plain:no-empty-slot", format!("step {step}: {occupied} of {} slots are occupied (len() = {}): the next lookup of an absent handle cannot terminate", t.capacity(), t.len()));
        }
        let k = rng.below(universe as usize) as u32;
        let v = rng.below(1000) as u32;
        let op = rng.weighted(&[30, 12, 10, 8, 6, 4, 3]);
        let name = ["insert", "remove", "get", "contains", "clear", "entry", "clone"][op];
        match op {
            0 => {
                if t.insert(h(k), v).is_err() {
                    return fail("plain:insert:error", format!("step {step}: insert failed"));
                }
                model.insert(k, v);
            }
            1 => {
                let got = t.remove(h(k));
                let want = model.remove(&k);
                if got != want {
                    return fail("plain:remove:result", format!("step {step}: remove({k}) = {got:?}, model says {want:?}"));
                }
            }
            2 => {
                if t.get(h(k)).copied() != model.get(&k).copied() {
                    return fail("plain:get:result", format!("step {step}: get({k}) = {:?}, model says {:?}", t.get(h(k)), model.get(&k)));
                }
            }
            3 => {
                if t.contains(h(k)) != model.contains_key(&k) {
                    return fail("plain:contains:result", format!("step {step}: contains({k}) differs from the model"));
                }
            }
            4 => {
                t.clear();
                model.clear();
                obs.inc("plain:clears");
            }
            5 => {
                let got = *t.entry(h(k)).or_insert_with(|| v);
                let want = *model.entry(k).or_insert(v);
                if got != want {
                    return fail("plain:entry:result", format!("step {step}: entry({k}) = {got}, model says {want}"));
                }
            }
            _ => {
                // continue on a clone
                let c = t.clone();
                let occ = c.iter().count();
                if occ >= c.capacity() && c.capacity() > 0 {
                    return fail("plain:clone:no-empty-slot", format!("step {step}: the clone of a table with {} entries has capacity {} and no empty slot: a lookup of an absent handle cannot terminate", t.len(), c.capacity()));
                }
                t = c;
                obs.inc("plain:clones");
            }
        }
        if t.len() != model.len() {
            return fail(&format!("plain:{name}:len"), format!("step {step} after {name}({k}): len {} , model says {}", t.len(), model.len()));
        }
        let mut listed: Vec<(u32, u32)> = t.iter().map(|(k, v)| (k.value(), *v)).collect();
        listed.sort();
        let want: Vec<(u32, u32)> = model.iter().map(|(k, v)| (1 + k * stride, *v)).collect();
        if listed != want {
            return fail(&format!("plain:{name}:contents"), format!("step {step} after {name}({k}): the table holds {listed:?}, the model {want:?}"));
        }
        obs.inc("plain:ops_compared");
    }
    Ok(())
}

pub fn bounded_plain(seed: u64, obs: &mut Obs) -> V {
    let mut rng = Prng::new(seed ^ 0xb0de);
    let cap = rng.range(1, 12) as usize;
    let mut st: BoundedStack<u32> = BoundedStack::new(cap);
    let mut model: Vec<u32> = Vec::new();
    let n = rng.range(10, if cfg!(miri) { 30 } else { 100 });
    for step in 0..n {
        let v = rng.below(1000) as u32;
        let op = rng.weighted(&[30, 14, 6, 6, 4]);
        let name = ["push", "pop", "clear", "last", "iter"][op];
        match op {
            0 => {
                let r = st.push(v);
                if model.len() < cap {
                    if r.is_err() {
                        return fail("plain:push:spurious-full", format!("step {step}: push failed with {} of {cap} slots used", model.len()));
                    }
                    model.push(v);
                } else if r.is_ok() {
                    return fail("plain:push:over-capacity", format!("step {step}: push succeeded on a full stack"));
                }
            }
            1 => {
                let got = st.pop();
                let want = model.pop();
                if got != want {
                    return fail("plain:pop:result", format!("step {step}: pop() = {got:?}, model says {want:?}"));
                }
            }
            2 => {
                st.clear();
                model.clear();
                obs.inc("plain:clears");
            }
            3 => {
                if st.last().copied() != model.last().copied() {
                    return fail("plain:last:result", format!("step {step}: last() = {:?}, model says {:?}", st.last(), model.last()));
                }
            }
            _ => {}
        }
        let listed: Vec<u32> = st.iter().copied().collect();
        if st.len() != model.len() || listed != model {
            return fail(&format!("plain:{name}:contents"), format!("step {step} after {name}: the stack holds {listed:?} (len {}), the model {model:?}", st.len()));
        }
        obs.inc("plain:ops_compared");
    }
    Ok(())
}
