//! The same collections with element types that have no drop glue (u64 / i64 / u32): code paths that are
//! specialised on `needs_drop` (clear, Drop) are different ones for these, and the drop-counting element types of
//! the main histories never reach them. Small seeded histories against std models, full comparison after every
//! operation; a logical guard reports a table without an empty slot before a probe for an absent key could spin.
use crate::prng::Prng;
use crate::runner::Obs;
use cao_lang::verif_hooks::SysAllocator;
use cao_lang::collections::bounded_stack::BoundedStack;
use cao_lang::collections::handle_table::HandleTable;
use cao_lang::collections::hash_map::CaoHashMap;
use std::collections::BTreeMap;

type V = Result<(), (String, String)>;

fn fail(what: &str, d: String) -> V {
    Err((what.to_string(), d))
}

pub fn hashmap_plain(seed: u64, obs: &mut Obs) -> V {
    let mut rng = Prng::new(seed ^ 0x51a1);
    let cap = *rng.pick(&[0usize, 1, 4, 8, 16]);
    let mut map: CaoHashMap<u64, i64> = match CaoHashMap::with_capacity_in(cap, SysAllocator) {
        Ok(m) => m,
        Err(e) => return fail("plain:with_capacity", format!("{e:?}")),
    };
    let mut model: BTreeMap<u64, i64> = BTreeMap::new();
    let universe = rng.range(3, 40) as u64;
    let n = rng.range(10, if cfg!(miri) { 30 } else { 120 });
    for step in 0..n {
        let k = rng.next_u64() % universe;
        let v = rng.range(-50, 50);
        let op = rng.weighted(&[30, 12, 10, 8, 6, 4]);
        let name = ["insert", "remove", "get", "contains", "clear", "entry"][op];
        match op {
            0 => {
                if map.insert(k, v).is_err() {
                    return fail("plain:insert:error", format!("step {step}: insert({k}) failed"));
                }
                model.insert(k, v);
            }
            1 => {
                let got = map.remove(&k);
                let want = model.remove(&k);
                if got != want {
                    return fail("plain:remove:result", format!("step {step}: remove({k}) = {got:?}, model says {want:?}"));
                }
            }
            2 => {
                let got = map.get(&k).copied();
                if got != model.get(&k).copied() {
                    return fail("plain:get:result", format!("step {step}: get({k}) = {got:?}, model says {:?}", model.get(&k)));
                }
            }
            3 => {
                if map.contains(&k) != model.contains_key(&k) {
                    return fail("plain:contains:result", format!("step {step}: contains({k}) = {}, model says {}", map.contains(&k), model.contains_key(&k)));
                }
            }
            4 => {
                map.clear();
                model.clear();
                obs.inc("plain:clears");
            }
            _ => {
                let got = match map.entry(k) {
                    Ok(e) => *e.or_insert_with(|| v),
                    Err(e) => return fail("plain:entry:error", format!("step {step}: entry({k}) failed: {e:?}")),
                };
                let want = *model.entry(k).or_insert(v);
                if got != want {
                    return fail("plain:entry:result", format!("step {step}: entry({k}).or_insert_with = {got}, model says {want}"));
                }
            }
        }
        if map.len() != model.len() {
            return fail(&format!("plain:{name}:len"), format!("step {step} after {name}({k}): len {} , model says {}", map.len(), model.len()));
        }
        let mut listed: Vec<(u64, i64)> = map.iter().map(|(k, v)| (*k, *v)).collect();
        listed.sort();
        let want: Vec<(u64, i64)> = model.iter().map(|(k, v)| (*k, *v)).collect();
        if listed != want {
            return fail(&format!("plain:{name}:contents"), format!("step {step} after {name}({k}): the map holds {listed:?}, the model {want:?}"));
        }
        for kk in 0..universe {
            if map.get(&kk).copied() != model.get(&kk).copied() {
                return fail(&format!("plain:{name}:lookup"), format!("step {step} after {name}({k}): get({kk}) = {:?}, the model says {:?}", map.get(&kk), model.get(&kk)));
            }
        }
        obs.inc("plain:ops_compared");
    }
    Ok(())
}

pub fn handletable_plain(seed: u64, obs: &mut Obs) -> V {
    let mut rng = Prng::new(seed ^ 0x7ab1e);
    let cap = *rng.pick(&[0usize, 1, 4, 8, 16, 33]);
    let mut t: HandleTable<u32> = match HandleTable::with_capacity(cap, SysAllocator) {
        Ok(t) => t,
        Err(e) => return fail("plain:with_capacity", format!("{e:?}")),
    };
    let mut model: BTreeMap<u32, u32> = BTreeMap::new();
    let universe = rng.range(3, 40) as u32;
    let stride = *rng.pick(&[1u32, 8, 16, 64]);
    let n = rng.range(10, if cfg!(miri) { 30 } else { 120 });
    let h = |k: u32| crate::e_handletable::mk_handle(1 + k * stride);
    for step in 0..n {
        // every probe for an absent key needs an empty slot
        let occupied = t.iter().count();
        if occupied >= t.capacity() && t.capacity() > 0 {
            return fail("plain:no-empty-slot", format!("step {step}: {occupied} of {} slots are occupied (len() = {}): the next lookup of an absent handle cannot terminate", t.capacity(), t.len()));
        }
        let k = rng.below(universe as usize) as u32;
        let v = rng.below(1000) as u32;
        let op = rng.weighted(&[30, 12, 10, 8, 6, 4, 3]);
        let name = ["insert", "remove", "get", "contains", "clear", "entry", "clone"][op];
        match op {
            0 => {
                if t.insert(h(k), v).is_err() {
                    return fail("plain:insert:error", format!("step {step}: insert failed"));
                }
                model.insert(k, v);
            }
            1 => {
                let got = t.remove(h(k));
                let want = model.remove(&k);
                if got != want {
                    return fail("plain:remove:result", format!("step {step}: remove({k}) = {got:?}, model says {want:?}"));
                }
            }
            2 => {
                if t.get(h(k)).copied() != model.get(&k).copied() {
                    return fail("plain:get:result", format!("step {step}: get({k}) = {:?}, model says {:?}", t.get(h(k)), model.get(&k)));
                }
            }
            3 => {
                if t.contains(h(k)) != model.contains_key(&k) {
                    return fail("plain:contains:result", format!("step {step}: contains({k}) differs from the model"));
                }
            }
            4 => {
                t.clear();
                model.clear();
                obs.inc("plain:clears");
            }
            5 => {
                let got = *t.entry(h(k)).or_insert_with(|| v);
                let want = *model.entry(k).or_insert(v);
                if got != want {
                    return fail("plain:entry:result", format!("step {step}: entry({k}) = {got}, model says {want}"));
                }
            }
            _ => {
                // continue on a clone
                let c = t.clone();
                let occ = c.iter().count();
                if occ >= c.capacity() && c.capacity() > 0 {
                    return fail("plain:clone:no-empty-slot", format!("step {step}: the clone of a table with {} entries has capacity {} and no empty slot: a lookup of an absent handle cannot terminate", t.len(), c.capacity()));
                }
                t = c;
                obs.inc("plain:clones");
            }
        }
        if t.len() != model.len() {
            return fail(&format!("plain:{name}:len"), format!("step {step} after {name}({k}): len {} , model says {}", t.len(), model.len()));
        }
        let mut listed: Vec<(u32, u32)> = t.iter().map(|(k, v)| (k.value(), *v)).collect();
        listed.sort();
        let want: Vec<(u32, u32)> = model.iter().map(|(k, v)| (1 + k * stride, *v)).collect();
        if listed != want {
            return fail(&format!("plain:{name}:contents"), format!("step {step} after {name}({k}): the table holds {listed:?}, the model {want:?}"));
        }
        obs.inc("plain:ops_compared");
    }
    Ok(())
}

pub fn bounded_plain(seed: u64, obs: &mut Obs) -> V {
    let mut rng = Prng::new(seed ^ 0xb0de);
    let cap = rng.range(1, 12) as usize;
    let mut st: BoundedStack<u32> = BoundedStack::new(cap);
    let mut model: Vec<u32> = Vec::new();
    let n = rng.range(10, if cfg!(miri) { 30 } else { 100 });
    for step in 0..n {
        let v = rng.below(1000) as u32;
        let op = rng.weighted(&[30, 14, 6, 6, 4]);
        let name = ["push", "pop", "clear", "last", "iter"][op];
        match op {
            0 => {
                let r = st.push(v);
                if model.len() < cap {
                    if r.is_err() {
                        return fail("plain:push:spurious-full", format!("step {step}: push failed with {} of {cap} slots used", model.len()));
                    }
                    model.push(v);
                } else if r.is_ok() {
                    return fail("plain:push:over-capacity", format!("step {step}: push succeeded on a full stack"));
                }
            }
            1 => {
                let got = st.pop();
                let want = model.pop();
                if got != want {
                    return fail("plain:pop:result", format!("step {step}: pop() = {got:?}, model says {want:?}"));
                }
            }
            2 => {
                st.clear();
                model.clear();
                obs.inc("plain:clears");
            }
            3 => {
                if st.last().copied() != model.last().copied() {
                    return fail("plain:last:result", format!("step {step}: last() = {:?}, model says {:?}", st.last(), model.last()));
                }
            }
            _ => {}
        }
        let listed: Vec<u32> = st.iter().copied().collect();
        if st.len() != model.len() || listed != model {
            return fail(&format!("plain:{name}:contents"), format!("step {step} after {name}: the stack holds {listed:?} (len {}), the model {model:?}", st.len()));
        }
        obs.inc("plain:ops_compared");
    }
    Ok(())
}


/// keys that own something, values that do not (the drop-counting element types of the main histories always pair a
/// droppable key with a droppable value); every key instance is dropped exactly once
pub fn hashmap_droppy_keys(seed: u64, obs: &mut Obs) -> V {
    use std::cell::RefCell;
    use std::rc::Rc;
    #[derive(Debug)]
    struct CK(u64, u64, Rc<RefCell<Vec<i32>>>);
    impl Drop for CK {
        fn drop(&mut self) {
            self.2.borrow_mut()[self.1 as usize] += 1;
        }
    }
    impl PartialEq for CK {
        fn eq(&self, o: &Self) -> bool {
            self.0 == o.0
        }
    }
    impl Eq for CK {}
    impl std::hash::Hash for CK {
        fn hash<H: std::hash::Hasher>(&self, h: &mut H) {
            self.0.hash(h)
        }
    }
    let drops: Rc<RefCell<Vec<i32>>> = Rc::new(RefCell::new(Vec::new()));
    let mk = |k: u64| -> CK {
        let mut d = drops.borrow_mut();
        d.push(0);
        CK(k, d.len() as u64 - 1, drops.clone())
    };
    let mut rng = Prng::new(seed ^ 0xd0a9);
    {
        let mut map: CaoHashMap<CK, i64> = match CaoHashMap::with_capacity_in(*rng.pick(&[0usize, 1, 8]), SysAllocator) {
            Ok(m) => m,
            Err(e) => return fail("plain:with_capacity", format!("{e:?}")),
        };
        let mut model: BTreeMap<u64, i64> = BTreeMap::new();
        let universe = rng.range(3, 20) as u64;
        for step in 0..rng.range(10, if cfg!(miri) { 25 } else { 80 }) {
            let k = rng.next_u64() % universe;
            let v = rng.range(-50, 50);
            match rng.weighted(&[30, 10, 4]) {
                0 => {
                    // (inserting a key that is present replaces key and value: the old key instance is dropped)
                    if map.insert(mk(k), v).is_err() {
                        return fail("plain:droppy:insert:error", format!("step {step}"));
                    }
                    model.insert(k, v);
                }
                1 => {
                    let probe = mk(k);
                    let got = map.remove(&probe);
                    if got != model.remove(&k) {
                        return fail("plain:droppy:remove:result", format!("step {step}: remove({k}) = {got:?}"));
                    }
                }
                _ => {
                    map.clear();
                    model.clear();
                }
            }
            if map.len() != model.len() {
                return fail("plain:droppy:len", format!("step {step}: len {} , model says {}", map.len(), model.len()));
            }
            // every key instance that is not in the map any more has been dropped exactly once by now
            let live: usize = map.len();
            let d = drops.borrow();
            let dropped = d.iter().filter(|c| **c == 1).count();
            let over = d.iter().filter(|c| **c > 1).count();
            if over > 0 {
                return fail("plain:droppy:double-drop", format!("step {step}: {over} key instances were dropped more than once"));
            }
            if dropped + live != d.len() {
                return fail("plain:droppy:key-not-dropped", format!("step {step}: {} key instances were created, {live} are in the map, {dropped} were dropped: {} are gone without having been dropped", d.len(), d.len() - live - dropped));
            }
            obs.inc("plain:droppy_key_ops");
        }
    }
    let d = drops.borrow();
    if let Some(i) = d.iter().position(|c| *c != 1) {
        return fail("plain:droppy:drop-count", format!("after the map was dropped, key instance #{i} has been dropped {} times", d[i]));
    }
    Ok(())
}

/// keys whose alignment is larger than that of the hash array's elements
pub fn hashmap_overaligned(seed: u64, obs: &mut Obs) -> V {
    #[derive(Debug, Clone, Copy, PartialEq, Eq, Hash, PartialOrd, Ord)]
    #[repr(align(32))]
    struct Wide(u64);
    let mut rng = Prng::new(seed ^ 0xa119);
    let mut a: CaoHashMap<u128, u8> = match CaoHashMap::with_capacity_in(*rng.pick(&[0usize, 1, 3, 8]), SysAllocator) {
        Ok(m) => m,
        Err(e) => return fail("plain:with_capacity", format!("{e:?}")),
    };
    let mut b: CaoHashMap<Wide, u16> = match CaoHashMap::with_capacity_in(*rng.pick(&[0usize, 1, 3, 8]), SysAllocator) {
        Ok(m) => m,
        Err(e) => return fail("plain:with_capacity", format!("{e:?}")),
    };
    let mut ma: BTreeMap<u128, u8> = BTreeMap::new();
    let mut mb: BTreeMap<Wide, u16> = BTreeMap::new();
    for step in 0..rng.range(5, if cfg!(miri) { 20 } else { 60 }) {
        let k = rng.next_u64() % 30;
        let v = rng.below(200) as u8;
        if rng.chance(3, 4) {
            if a.insert((k as u128) << 70 | k as u128, v).is_err() || b.insert(Wide(k), v as u16).is_err() {
                return fail("plain:overaligned:insert:error", format!("step {step}"));
            }
            ma.insert((k as u128) << 70 | k as u128, v);
            mb.insert(Wide(k), v as u16);
        } else {
            let ga = a.remove(&((k as u128) << 70 | k as u128));
            let gb = b.remove(&Wide(k));
            if ga != ma.remove(&((k as u128) << 70 | k as u128)) || gb != mb.remove(&Wide(k)) {
                return fail("plain:overaligned:remove:result", format!("step {step}: remove({k})"));
            }
        }
        let mut la: Vec<(u128, u8)> = a.iter().map(|(k, v)| (*k, *v)).collect();
        la.sort();
        let mut lb: Vec<(Wide, u16)> = b.iter().map(|(k, v)| (*k, *v)).collect();
        lb.sort();
        if la != ma.iter().map(|(k, v)| (*k, *v)).collect::<Vec<_>>() || lb != mb.iter().map(|(k, v)| (*k, *v)).collect::<Vec<_>>() {
            return fail("plain:overaligned:contents", format!("step {step}: contents differ from the model"));
        }
        for (k, _) in a.iter() {
            if (k as *const u128 as usize) % std::mem::align_of::<u128>() != 0 {
                return fail("plain:overaligned:misaligned-key", format!("step {step}: a u128 key lives at {:p}", k));
            }
        }
        for (k, _) in b.iter() {
            if (k as *const Wide as usize) % 32 != 0 {
                return fail("plain:overaligned:misaligned-key", format!("step {step}: a 32-byte aligned key lives at {:p}", k));
            }
        }
        obs.inc("plain:overaligned_ops");
    }
    Ok(())
}
