//! Heap audit (DESIGN.md 5.3): walks the object graph from the roots through the hook accessors and checks
//! that nothing reachable was swept. Requires quarantine mode, so that a swept object's address is
//! recognisable *without reading it*: every pointer is tested before it is followed.
use cao_lang::prelude::*;
use cao_lang::vm::runtime::cao_lang_object::{CaoLangObject, CaoLangObjectBody};
use cao_lang::vm::runtime::RuntimeData;
use std::collections::HashSet;

#[derive(Debug, Clone)]
pub struct AuditFailure {
    /// invariant id: A1 (reachable object swept), A2 (upvalue / frame), A3 (table keys vs hash part), Q (write to released memory)
    pub invariant: &'static str,
    /// what held the dangling reference
    pub holder: String,
    pub detail: String,
}

pub struct AuditStats {
    pub objects_reached: usize,
    pub live_objects: usize,
}

/// `settled`: the VM is between two instructions of a run that has not failed. After a failed run the stacks
/// are left as they were at the point of failure, so the stack-shape invariants (A2) are not meaningful then.
pub fn audit(rt: &RuntimeData, check_quarantine_content: bool, settled: bool) -> Result<AuditStats, AuditFailure> {
    let alloc = rt.verif_allocator();
    let live: HashSet<usize> = rt.verif_objects().iter().map(|p| p.as_ptr() as usize).collect();
    let mut seen: HashSet<usize> = HashSet::new();
    let mut work: Vec<(usize, String)> = Vec::new();

    let check_ptr = |addr: usize, holder: &str| -> Result<(), AuditFailure> {
        if alloc.verif.is_quarantined(addr) {
            return Err(AuditFailure {
                invariant: "A1",
                holder: holder.to_string(),
                detail: format!("{holder} still refers to object {addr:#x}, which a collection has swept"),
            });
        }
        if !live.contains(&addr) {
            return Err(AuditFailure {
                invariant: "A1",
                holder: holder.to_string(),
                detail: format!("{holder} refers to {addr:#x}, which is not in the VM's object list"),
            });
        }
        Ok(())
    };

    let stack = rt.verif_value_stack();
    let stack_lo = stack.as_ptr() as usize;
    let stack_hi = stack_lo + stack.len() * std::mem::size_of::<Value>();
    for (i, v) in stack.iter().enumerate() {
        if let Value::Object(o) = v {
            let a = o.as_ptr() as usize;
            check_ptr(a, "value-stack slot")?;
            work.push((a, format!("value-stack[{i}]")));
        }
    }
    for (i, v) in rt.verif_globals().iter().enumerate() {
        if let Value::Object(o) = v {
            let a = o.as_ptr() as usize;
            check_ptr(a, "global variable")?;
            work.push((a, format!("global#{i}")));
        }
    }
    // call frames: the closure pointer points *into* a closure object
    for (fi, (_, _, offset, closure)) in rt.verif_call_frames().iter().enumerate() {
        if settled && (*offset as usize) > stack.len() {
            return Err(AuditFailure {
                invariant: "A2",
                holder: "call frame".into(),
                detail: format!("frame {fi} starts at stack offset {offset}, above the stack height {}", stack.len()),
            });
        }
        if closure.is_null() {
            continue;
        }
        let addr = *closure as usize;
        if let Some((p, _)) = alloc.verif.quarantined_block_containing(addr) {
            return Err(AuditFailure {
                invariant: "A1",
                holder: "call frame closure".into(),
                detail: format!("call frame {fi} runs closure {addr:#x}, which lies in the swept object {p:#x}"),
            });
        }
        let owner = live.iter().find(|o| **o <= addr && addr < **o + std::mem::size_of::<CaoLangObject>());
        match owner {
            Some(o) => work.push((*o, format!("frame[{fi}].closure"))),
            None => {
                return Err(AuditFailure {
                    invariant: "A2",
                    holder: "call frame closure".into(),
                    detail: format!("call frame {fi} runs closure {addr:#x}, which is inside no live object"),
                })
            }
        }
    }
    // open upvalue chain
    {
        let mut p = rt.verif_open_upvalues();
        let mut last_loc = usize::MAX;
        let mut n = 0;
        while !p.is_null() {
            let a = p as usize;
            check_ptr(a, "open-upvalue list")?;
            let obj = unsafe { &*p };
            match &obj.body {
                CaoLangObjectBody::Upvalue(u) => {
                    let loc = u.location as usize;
                    if settled && (loc < stack_lo || loc >= stack_hi) {
                        let slot = (loc as i64 - stack_lo as i64) / std::mem::size_of::<Value>() as i64;
                        return Err(AuditFailure {
                            invariant: "A2",
                            holder: "open-upvalue list".into(),
                            detail: format!(
                                "open upvalue {a:#x} points to {loc:#x} (stack slot {slot}), outside the live part of the value stack (height {})",
                                stack.len()
                            ),
                        });
                    }
                    if loc >= last_loc {
                        return Err(AuditFailure {
                            invariant: "A2",
                            holder: "open-upvalue list".into(),
                            detail: "the open-upvalue list is not strictly ordered by stack location".into(),
                        });
                    }
                    last_loc = loc;
                    work.push((a, "open-upvalue".into()));
                    p = u.next;
                }
                _ => {
                    return Err(AuditFailure {
                        invariant: "A2",
                        holder: "open-upvalue list".into(),
                        detail: format!("object {a:#x} in the open-upvalue list is a {}", obj.type_name()),
                    })
                }
            }
            n += 1;
            if n > 100_000 {
                return Err(AuditFailure { invariant: "A2", holder: "open-upvalue list".into(), detail: "cycle in the open-upvalue list".into() });
            }
        }
    }

    while let Some((a, via)) = work.pop() {
        if !seen.insert(a) {
            continue;
        }
        let obj = unsafe { &*(a as *const CaoLangObject) };
        match &obj.body {
            CaoLangObjectBody::Table(t) => {
                // A3: keys vector and hash part agree
                let keys = t.keys();
                let map: &cao_lang::collections::hash_map::CaoHashMap<Value, Value, _> = t;
                // (only for tables whose keys are all of the kinds that keep their hash and equal themselves: nil, integers,
                // non-NaN reals, strings. A NaN key can never be found again and a table used as key changes its hash when
                // it is modified - both are documented exceptions, and pop / remove then legitimately leave the entry behind)
                let stable = |k: &Value| match k {
                    Value::Nil | Value::Integer(_) => true,
                    Value::Real(r) => !r.is_nan(),
                    Value::Object(o) => matches!(unsafe { &o.as_ref().body }, CaoLangObjectBody::String(_)),
                };
                let judged = keys.iter().all(|k| match k {
                    Value::Object(o) => !alloc.verif.is_quarantined(o.as_ptr() as usize) && stable(k),
                    other => stable(other),
                }) && map.iter().all(|(k, _)| match k {
                    Value::Object(o) => !alloc.verif.is_quarantined(o.as_ptr() as usize) && stable(k),
                    other => stable(other),
                });
                if judged && keys.len() != map.len() {
                    return Err(AuditFailure {
                        invariant: "A3",
                        holder: "table".into(),
                        detail: format!("table {a:#x} (via {via}) lists {} keys but its hash part holds {} entries", keys.len(), map.len()),
                    });
                }
                for (k, v) in map.iter() {
                    for (x, what) in [(k, "table key"), (v, "table value")] {
                        if let Value::Object(o) = x {
                            let oa = o.as_ptr() as usize;
                            check_ptr(oa, what).map_err(|mut e| {
                                e.detail = format!("{} (table {a:#x} reached via {via})", e.detail);
                                e
                            })?;
                            work.push((oa, format!("{via}.{what}")));
                        }
                    }
                }
                for k in keys {
                    if let Value::Object(o) = k {
                        check_ptr(o.as_ptr() as usize, "table key list")?;
                    }
                }
            }
            CaoLangObjectBody::Closure(c) => {
                for u in c.upvalues.iter() {
                    let ua = u.as_ptr() as usize;
                    check_ptr(ua, "closure upvalue").map_err(|mut e| {
                        e.detail = format!("{} (closure {a:#x} reached via {via})", e.detail);
                        e
                    })?;
                    work.push((ua, format!("{via}.upvalue")));
                }
            }
            CaoLangObjectBody::Upvalue(u) => {
                let loc = u.location as usize;
                let own = &u.value as *const Value as usize;
                if loc != own {
                    // open: must point into the live part of the stack
                    if settled && (loc < stack_lo || loc >= stack_hi) {
                        return Err(AuditFailure {
                            invariant: "A2",
                            holder: "upvalue".into(),
                            detail: format!("open upvalue {a:#x} (via {via}) points to {loc:#x}, outside the live part of the value stack"),
                        });
                    }
                } else if let Value::Object(o) = u.value {
                    let oa = o.as_ptr() as usize;
                    check_ptr(oa, "closed upvalue").map_err(|mut e| {
                        e.detail = format!("{} (upvalue {a:#x} reached via {via})", e.detail);
                        e
                    })?;
                    work.push((oa, format!("{via}.captured")));
                }
            }
            CaoLangObjectBody::String(_) | CaoLangObjectBody::Function(_) | CaoLangObjectBody::NativeFunction(_) => {}
        }
    }
    if check_quarantine_content {
        if let Some((p, sz)) = alloc.verif.first_modified_quarantined_block() {
            return Err(AuditFailure {
                invariant: "Q",
                holder: "released block".into(),
                detail: format!("the released block {p:#x} ({sz} bytes) was written after it was freed"),
            });
        }
    }
    Ok(AuditStats { objects_reached: seen.len(), live_objects: live.len() })
}
