//! C13: HandleTable against BTreeMap in lock-step.
use crate::e_hashmap::{reg_final_check, reg_reset, reg_take_errors, DV};
use crate::prng::Prng;
use crate::runner::{Engine, Obs, Tier, Verdict};
use cao_lang::collections::handle_table::{Handle, HandleTable};
use cao_lang::verif_hooks::{AllocEvent, AllocProxy, Allocator, CaoLangAllocator, SysAllocator};
use serde::{Deserialize, Serialize};
use std::collections::BTreeMap;

pub fn mk_handle(x: u32) -> Handle {
    bytemuck::cast::<u32, Handle>(x)
}

#[derive(Debug, Clone, Serialize, Deserialize, PartialEq)]
pub enum Op {
    Insert(u32, i64),
    Remove(u32),
    Get(u32),
    GetMut(u32, i64),
    Contains(u32),
    Entry(u32, i64),
    Reserve(usize),
    Clear,
    CloneSwap,
    CloneDrop,
    IterMut(i64),
    Index(u32),
    IndexMut(u32, i64),
    InsertZero(i64),
}

impl Op {
    fn name(&self) -> &'static str {
        match self {
            Op::Insert(..) => "insert",
            Op::Remove(..) => "remove",
            Op::Get(..) => "get",
            Op::GetMut(..) => "get_mut",
            Op::Contains(..) => "contains",
            Op::Entry(..) => "entry",
            Op::Reserve(..) => "reserve",
            Op::Clear => "clear",
            Op::CloneSwap | Op::CloneDrop => "clone",
            Op::IterMut(..) => "iter_mut",
            Op::Index(..) => "index",
            Op::IndexMut(..) => "index_mut",
            Op::InsertZero(..) => "insert_zero",
        }
    }
    fn key(&self) -> Option<u32> {
        match self {
            Op::Insert(k, _)
            | Op::Remove(k)
            | Op::Get(k)
            | Op::GetMut(k, _)
            | Op::Contains(k)
            | Op::Entry(k, _)
            | Op::Index(k)
            | Op::IndexMut(k, _) => Some(*k),
            _ => None,
        }
    }
}

#[derive(Debug, Clone, Serialize, Deserialize)]
pub struct Case {
    pub proxy_alloc: bool,
    pub init_cap: usize,
    pub universe: Vec<u32>,
    pub ops: Vec<Op>,
    pub fail_sweep: bool,
    pub fail_at: Option<u64>,
    pub kind: String,
}

#[derive(Default)]
pub struct HandleTableEngine {}

fn slot_of(h: u32, cap: usize) -> usize {
    if cap == 0 {
        return 0;
    }
    (h.wrapping_mul(2654435769) as usize) & (cap - 1)
}

impl Engine for HandleTableEngine {
    type Case = Case;
    fn name(&self) -> &'static str {
        "handletable"
    }

    fn gen(&mut self, rng: &mut Prng, tier: Tier) -> Case {
        let proxy_alloc = rng.chance(1, 2);
        let init_cap = match rng.below(10) {
            0 => 0,
            1 => 1,
            2 => rng.range(2, 40) as usize, // any, including non powers of two
            3 => 2,
            4 => 4,
            5 | 6 => 16,
            7 => 8,
            8 => 32,
            _ => rng.range(0, 40) as usize,
        };
        let kind = rng.weighted(&[3, 4, 2]);
        let mut universe: Vec<u32> = Vec::new();
        match kind {
            0 => {
                let n = rng.range(3, 48) as u32;
                universe.extend(1..=n);
            }
            1 => {
                // handles that share their low bits => same home slot at every power-of-two capacity up to 2^bits
                let bits = rng.range(2, 7) as u32;
                // choose x so that slot(x) is the last slot (wrap-around) half of the time
                let cap = 1usize << bits;
                let want = if rng.chance(1, 2) { cap - 1 } else { rng.below(cap) };
                let mut base = 1u32;
                for cand in 1..(4 * cap as u32) {
                    if slot_of(cand, cap) == want {
                        base = cand;
                        break;
                    }
                }
                let n = rng.range(3, 12) as u32;
                for j in 0..n {
                    universe.push(base.wrapping_add(j << bits));
                }
                // chain neighbours
                for d in 1..=rng.below(4) as u32 {
                    for cand in 1..(4 * cap as u32) {
                        if slot_of(cand, cap) == (want + d as usize) % cap {
                            universe.push(cand);
                            break;
                        }
                    }
                }
                for _ in 0..rng.below(6) {
                    universe.push((rng.next_u64() % 5000) as u32 + 1);
                }
            }
            _ => {
                let n = rng.range(2, 30);
                for _ in 0..n {
                    universe.push((rng.next_u64() as u32) | 1);
                }
            }
        }
        universe.retain(|x| *x != 0);
        universe.sort();
        universe.dedup();
        if universe.is_empty() {
            universe.push(7);
        }
        // (the Miri interpreter is about four orders of magnitude slower: short histories there)
        let max_ops = if cfg!(miri) { 36 } else if tier == Tier::Quick { 120 } else { 200 };
        let n_ops = rng.range(5, max_ops) as usize;
        let profile = rng.below(4);
        let mut ops = Vec::with_capacity(n_ops);
        for _ in 0..n_ops {
            let k = *rng.pick(&universe);
            let v = rng.range(-1000, 1000);
            let w: [u32; 14] = match profile {
                0 => [30, 6, 6, 3, 4, 10, 2, 1, 1, 1, 1, 2, 2, 1],
                1 => [14, 18, 6, 3, 6, 10, 2, 1, 1, 1, 1, 2, 2, 1],
                2 => [2, 4, 6, 3, 6, 40, 1, 1, 1, 1, 1, 2, 2, 1], // entry-only growth
                _ => [10, 26, 8, 3, 8, 6, 1, 1, 1, 1, 1, 2, 2, 1],
            };
            let op = match rng.weighted(&w) {
                0 => Op::Insert(k, v),
                1 => Op::Remove(k),
                2 => Op::Get(k),
                3 => Op::GetMut(k, v),
                4 => Op::Contains(k),
                5 => Op::Entry(k, v),
                6 => Op::Reserve(rng.below(12)),
                7 => Op::Clear,
                8 => Op::CloneSwap,
                9 => Op::CloneDrop,
                10 => Op::IterMut(v),
                11 => Op::Index(k),
                12 => Op::IndexMut(k, v),
                _ => Op::InsertZero(v),
            };
            ops.push(op);
        }
        Case {
            proxy_alloc,
            init_cap,
            universe,
            ops,
            fail_sweep: proxy_alloc && rng.chance(1, 4),
            fail_at: None,
            kind: ["dense", "collide", "random"][kind].to_string(),
        }
    }

    fn run(&mut self, case: &Case, obs: &mut Obs) -> Verdict {
        // element types without drop glue take other paths through clear / Drop
        if let Err((what, d)) = crate::plain::handletable_plain(case.ops.len() as u64 * 7919 + case.init_cap as u64 * 31 + case.universe.iter().map(|x| *x as u64).sum::<u64>(), obs) {
            return Verdict::violation(format!("C13:{what}"), d);
        }
        if case.proxy_alloc {
            let mk = || {
                let a = CaoLangAllocator::new(std::ptr::null_mut(), 1 << 30);
                a.next_gc.store(usize::MAX, std::sync::atomic::Ordering::Relaxed);
                AllocProxy::from(a)
            };
            if let Some(i) = case.fail_at {
                let a = mk();
                return run_history(case, a.clone(), Some(&a), Some(i), obs, |_, _| None, |_, _, _| false).0;
            }
            let a = mk();
            let (v, n_alloc) = run_history(case, a.clone(), Some(&a), None, obs, |_, _| None, |_, _, _| false);
            if v.is_violation() || !case.fail_sweep {
                return v;
            }
            obs.inc("fail_sweeps");
            for i in 0..n_alloc {
                let a = mk();
                let mut o2 = Obs::default();
                let (v, _) = run_history(case, a.clone(), Some(&a), Some(i), &mut o2, |_, _| None, |_, _, _| false);
                obs.add("alloc_points_failed", 1);
                obs.add("failed_alloc_reported", *o2.counters.get("failed_alloc_reported").unwrap_or(&0));
                if let Verdict::Violation { sig, detail } = v {
                    return Verdict::violation(format!("{sig}+allocfail"), format!("with allocation #{i} failing: {detail}"));
                }
            }
            Verdict::Ok
        } else {
            run_history(
                case,
                SysAllocator,
                None,
                None,
                obs,
                |t: &HandleTable<DV, SysAllocator>, k| Some(t[mk_handle(k)].read()),
                |t: &mut HandleTable<DV, SysAllocator>, k, v| {
                    t[mk_handle(k)].v = v;
                    true
                },
            )
            .0
        }
    }

    fn shrink(&self, case: &Case) -> Vec<Case> {
        let mut out = Vec::new();
        let n = case.ops.len();
        let mut chunk = n / 2;
        while chunk >= 1 {
            let mut start = 0;
            while start < n {
                let mut c = case.clone();
                let end = (start + chunk).min(n);
                c.ops.drain(start..end);
                if c.ops.len() < n {
                    out.push(c);
                }
                start += chunk;
            }
            if chunk == 1 {
                break;
            }
            chunk /= 2;
        }
        if case.fail_sweep {
            let mut c = case.clone();
            c.fail_sweep = false;
            out.push(c);
        }
        out
    }
}

fn viol(op: &str, what: &str, detail: String) -> Verdict {
    Verdict::violation(format!("C13:{op}:{what}"), detail)
}

fn compare<A: Allocator>(
    t: &HandleTable<DV, A>,
    model: &BTreeMap<u32, i64>,
    universe: &[u32],
) -> Option<(&'static str, String)> {
    if t.len() != model.len() {
        return Some(("len", format!("len() = {} but the model holds {} handles", t.len(), model.len())));
    }
    if t.is_empty() != model.is_empty() {
        return Some(("is_empty", format!("is_empty() = {}", t.is_empty())));
    }
    // lookups of absent handles need an empty slot to stop at
    let full = t.iter().count() >= t.capacity();
    for k in universe.iter().chain(model.keys()) {
        let want = model.get(k).copied();
        if want.is_none() && full {
            continue;
        }
        let got = t.get(mk_handle(*k)).map(|v| v.read());
        if got != want {
            let what = match (got, want) {
                (None, Some(_)) => "lost-key",
                (Some(_), None) => "ghost-key",
                _ => "wrong-value",
            };
            return Some((what, format!("get({k}) = {got:?}, model says {want:?}")));
        }
        if t.contains(mk_handle(*k)) != want.is_some() {
            return Some(("contains", format!("contains({k}) disagrees with the model ({})", want.is_some())));
        }
    }
    let mut seen: BTreeMap<u32, i64> = BTreeMap::new();
    for (h, v) in t.iter() {
        if seen.insert(h.value(), v.read()).is_some() {
            return Some(("iter-duplicate", format!("iter() yields handle {} twice", h.value())));
        }
    }
    if &seen != model {
        return Some(("iter", format!("iter() yields {seen:?} but the model is {model:?}")));
    }
    None
}

fn run_history<A: Allocator + Clone>(
    case: &Case,
    alloc: A,
    hooks: Option<&AllocProxy>,
    fail_at: Option<u64>,
    obs: &mut Obs,
    index: impl Fn(&HandleTable<DV, A>, u32) -> Option<i64>,
    index_mut: impl Fn(&mut HandleTable<DV, A>, u32, i64) -> bool,
) -> (Verdict, u64) {
    reg_reset();
    let mut v = run_inner(case, alloc, hooks, fail_at, obs, index, index_mut);
    let n_alloc = hooks.map(|h| h.verif.alloc_index.get()).unwrap_or(0);
    let mut errs = reg_take_errors();
    if !v.is_violation() {
        errs.extend(reg_final_check());
        if let Some((s, d)) = errs.into_iter().next() {
            v = Verdict::violation(format!("C13:{s}"), d);
        }
    }
    (v, n_alloc)
}

fn run_inner<A: Allocator + Clone>(
    case: &Case,
    alloc: A,
    hooks: Option<&AllocProxy>,
    fail_at: Option<u64>,
    obs: &mut Obs,
    index: impl Fn(&HandleTable<DV, A>, u32) -> Option<i64>,
    index_mut: impl Fn(&mut HandleTable<DV, A>, u32, i64) -> bool,
) -> Verdict {
    if let Some(h) = hooks {
        h.verif.fail_at.set(fail_at);
        h.verif.start_log();
    }
    let failed_alloc_seen = |obs: &mut Obs| -> bool {
        match hooks {
            Some(h) => {
                let f = h
                    .verif
                    .drain_log()
                    .iter()
                    .any(|e| matches!(e, AllocEvent::Alloc { ok: false, .. }));
                if f {
                    obs.inc("alloc_failures_injected");
                }
                f
            }
            None => false,
        }
    };
    obs.inc(&format!("init_cap:{}", if case.init_cap.is_power_of_two() && case.init_cap >= 2 { "pot" } else if case.init_cap < 2 { "lt2" } else { "non-pot" }));
    let mut t: HandleTable<DV, A> = match HandleTable::with_capacity(case.init_cap, alloc.clone()) {
        Ok(t) => t,
        Err(_) => {
            if failed_alloc_seen(obs) {
                obs.inc("failed_alloc_reported");
                return Verdict::Ok;
            }
            return viol("with_capacity", "spurious-error", format!("with_capacity({}) failed without an allocation failure", case.init_cap));
        }
    };
    let _ = failed_alloc_seen(obs);
    let mut model: BTreeMap<u32, i64> = BTreeMap::new();
    let mut growths = 0u64;
    let mut entry_inserts = 0u64;

    for (step, op) in case.ops.iter().enumerate() {
        let cap_before = t.capacity();
        let name = op.name();
        obs.inc(&format!("op:{name}"));
        if let Some(k) = op.key() {
            if !model.contains_key(&k) && t.iter().count() >= t.capacity() {
                return viol(
                    name,
                    "no-empty-slot",
                    format!(
                        "step {step}: len == capacity == {} and handle {k} is absent: the probe of {name} cannot terminate",
                        t.capacity()
                    ),
                );
            }
            if model.keys().any(|o| *o != k && slot_of(*o, cap_before) == slot_of(k, cap_before)) {
                obs.inc("ops_with_colliding_neighbour");
                if matches!(op, Op::Remove(_)) && model.contains_key(&k) {
                    obs.inc("removals_with_colliding_neighbour");
                }
            }
        }
        match op {
            Op::Insert(k, v) => {
                let r = t.insert(mk_handle(*k), DV::new(*v)).map(|r| r.read());
                let failed = failed_alloc_seen(obs);
                match r {
                    Ok(got) => {
                        if failed {
                            return viol(name, "failure-swallowed", format!("step {step}: an allocation failed during insert({k}) but Ok was returned"));
                        }
                        if got != *v {
                            return viol(name, "result", format!("step {step}: insert({k},{v}) returned a reference to {got}"));
                        }
                        model.insert(*k, *v);
                    }
                    Err(_) => {
                        if !failed {
                            return viol(name, "spurious-error", format!("step {step}: insert({k}) returned Err without an allocation failure"));
                        }
                        obs.inc("failed_alloc_reported");
                    }
                }
            }
            Op::InsertZero(v) => {
                let r = t.insert(mk_handle(0), DV::new(*v)).is_ok();
                let _ = failed_alloc_seen(obs);
                if r {
                    return viol(name, "accepted", format!("step {step}: insert(Handle(0)) was accepted"));
                }
            }
            Op::Remove(k) => {
                let got = t.remove(mk_handle(*k)).map(|v| v.read());
                let want = model.remove(k);
                if got != want {
                    return viol(name, "result", format!("step {step}: remove({k}) returned {got:?}, model says {want:?}"));
                }
            }
            Op::Get(k) => {
                let got = t.get(mk_handle(*k)).map(|v| v.read());
                if got != model.get(k).copied() {
                    return viol(name, "result", format!("step {step}: get({k}) = {got:?}, model says {:?}", model.get(k)));
                }
            }
            Op::GetMut(k, v) => match (t.get_mut(mk_handle(*k)), model.get_mut(k)) {
                (Some(slot), Some(m)) => {
                    if slot.read() != *m {
                        return viol(name, "result", format!("step {step}: get_mut({k}) sees {} but model says {}", slot.v, m));
                    }
                    slot.v = *v;
                    *m = *v;
                }
                (None, None) => {}
                (g, m) => {
                    return viol(name, "result", format!("step {step}: get_mut({k}) is_some={} but model is_some={}", g.is_some(), m.is_some()));
                }
            },
            Op::Contains(k) => {
                if t.contains(mk_handle(*k)) != model.contains_key(k) {
                    return viol(name, "result", format!("step {step}: contains({k}) disagrees with the model"));
                }
            }
            Op::Entry(k, v) => {
                let was_present = model.contains_key(k);
                let mut called = false;
                // entry() returns no Result, so it cannot report an allocation failure: not judged under failure
                let saved = hooks.map(|h| h.verif.fail_at.replace(None));
                let got = t
                    .entry(mk_handle(*k))
                    .or_insert_with(|| {
                        called = true;
                        DV::new(*v)
                    })
                    .read();
                if let (Some(h), Some(s)) = (hooks, saved) {
                    h.verif.fail_at.set(s);
                }
                let _ = failed_alloc_seen(obs);
                if called == was_present {
                    return viol(name, "vacancy", format!("step {step}: entry({k}) ran the constructor = {called} but handle present = {was_present}"));
                }
                let want = *model.entry(*k).or_insert(*v);
                if got != want {
                    return viol(name, "result", format!("step {step}: entry({k}).or_insert_with = {got}, model says {want}"));
                }
                if called {
                    entry_inserts += 1;
                }
            }
            Op::Reserve(n) => {
                let r = t.reserve(*n);
                let failed = failed_alloc_seen(obs);
                match r {
                    Ok(()) => {
                        if failed {
                            return viol(name, "failure-swallowed", format!("step {step}: an allocation failed during reserve but Ok was returned"));
                        }
                        if t.capacity() < model.len() + n {
                            return viol(name, "capacity", format!("step {step}: reserve({n}) with {} entries left capacity {}", model.len(), t.capacity()));
                        }
                    }
                    Err(_) => {
                        if !failed {
                            return viol(name, "spurious-error", format!("step {step}: reserve({n}) returned Err without an allocation failure"));
                        }
                        obs.inc("failed_alloc_reported");
                    }
                }
            }
            Op::Clear => {
                t.clear();
                model.clear();
            }
            Op::CloneSwap | Op::CloneDrop => {
                let saved = hooks.map(|h| h.verif.fail_at.replace(None));
                let c = t.clone();
                if let (Some(h), Some(s)) = (hooks, saved) {
                    h.verif.fail_at.set(s);
                }
                let _ = failed_alloc_seen(obs);
                if let Some((what, d)) = compare(&c, &model, &case.universe) {
                    return viol(name, &format!("clone-{what}"), format!("step {step}: the clone differs: {d}"));
                }
                if matches!(op, Op::CloneSwap) {
                    t = c;
                }
            }
            Op::IterMut(d) => {
                for (_, v) in t.iter_mut() {
                    v.v = v.read().wrapping_add(*d);
                }
                for (_, v) in model.iter_mut() {
                    *v = v.wrapping_add(*d);
                }
            }
            Op::Index(k) => {
                if let Some(want) = model.get(k) {
                    if let Some(got) = index(&t, *k) {
                        if got != *want {
                            return viol(name, "result", format!("step {step}: table[{k}] = {got}, model says {want}"));
                        }
                    }
                }
            }
            Op::IndexMut(k, v) => {
                if model.contains_key(k) && index_mut(&mut t, *k, *v) {
                    model.insert(*k, *v);
                }
            }
        }
        if t.capacity() > cap_before {
            growths += 1;
        }
        if let Some((s, d)) = reg_take_errors().into_iter().next() {
            return viol(name, &s, format!("step {step} ({op:?}): {d}"));
        }
        if t.iter().count() >= t.capacity() {
            return viol(
                name,
                "table-full",
                format!(
                    "step {step}: {op:?} left the table with len == capacity == {}: no empty slot remains, so a lookup of any absent handle cannot terminate",
                    t.capacity()
                ),
            );
        }
        if let Some((what, d)) = compare(&t, &model, &case.universe) {
            return viol(name, what, format!("step {step} after {op:?}: {d}"));
        }
        obs.inc("ops_compared");
    }
    obs.add("growth_steps", growths);
    obs.max("entries_added_through_entry", entry_inserts);
    if entry_inserts > 16 {
        obs.inc("histories_with_gt16_entry_inserts");
    }
    if growths >= 1 && case.ops.len() >= 20 {
        obs.nontrivial = true;
    }
    Verdict::Ok
}
