//! C16: module editing API against a plain tree-edit model.
use crate::prng::Prng;
use crate::runner::{Engine, Obs, Tier, Verdict};
use cao_lang::compiler::{
    CallNode, Card, CardBody, CardIndex, CompositeCard, DynamicJump, ForEach, Function, Module, Repeat, SetVar,
    StaticJump, UnaryExpression,
};
use serde::{Deserialize, Serialize};

// ---------------------------------------------------------------- model

#[derive(Debug, Clone, PartialEq)]
enum Layout {
    Leaf,
    Fixed,
    List,
    /// slot 0 fixed, the rest a list (dynamic call: function, args...)
    HeadList,
}

#[derive(Debug, Clone)]
struct MNode {
    /// None = a default card created by the API itself (id unknown)
    id: Option<u64>,
    kind: String,
    payload: String,
    layout: Layout,
    children: Vec<MNode>,
}

fn layout_of(c: &Card) -> Layout {
    use CardBody::*;
    match &c.body {
        ScalarInt(_) | ScalarFloat(_) | StringLiteral(_) | Comment(_) | Function(_) | CreateTable | ReadVar(_)
        | NativeFunction(_) | Abort | ScalarNil => Layout::Leaf,
        CompositeCard(_) | Closure(_) | Array(_) | Call(_) | CallNative(_) => Layout::List,
        DynamicCall(_) => Layout::HeadList,
        _ => Layout::Fixed,
    }
}

fn payload_of(c: &Card) -> String {
    use CardBody::*;
    match &c.body {
        ScalarInt(i) => format!("{i}"),
        ScalarFloat(f) => format!("{:x}", f.to_bits()),
        StringLiteral(s) | Comment(s) | Function(s) | NativeFunction(s) | ReadVar(s) => s.clone(),
        Call(j) => j.function_name.clone(),
        CallNative(j) => j.name.clone(),
        SetVar(s) | SetGlobalVar(s) => s.name.clone(),
        Repeat(r) => format!("{:?}", r.i),
        ForEach(f) => format!("{:?}/{:?}/{:?}", f.i, f.k, f.v),
        CompositeCard(c) => c.ty.clone(),
        Closure(f) => format!("{:?}", f.arguments),
        _ => String::new(),
    }
}

/// children in documented slot order, written from the CardBody doc comments (not via iter_children)
fn children_of(c: &Card) -> Vec<&Card> {
    use CardBody::*;
    match &c.body {
        Add(b) | Sub(b) | Mul(b) | Div(b) | Less(b) | LessOrEq(b) | Equals(b) | NotEquals(b) | And(b) | Or(b)
        | Xor(b) | GetProperty(b) | IfTrue(b) | IfFalse(b) | While(b) | Get(b) | AppendTable(b) => b.iter().collect(),
        Not(u) | Return(u) | Len(u) | PopTable(u) => vec![u.card.as_ref()],
        SetProperty(t) | IfElse(t) => t.iter().collect(),
        CallNative(c) => c.args.0.iter().collect(),
        Call(c) => c.args.0.iter().collect(),
        SetGlobalVar(s) | SetVar(s) => vec![&s.value],
        Repeat(r) => vec![&r.n, &r.body],
        ForEach(f) => vec![f.iterable.as_ref(), f.body.as_ref()],
        CompositeCard(c) => c.cards.iter().collect(),
        DynamicCall(d) => std::iter::once(&d.function).chain(d.args.0.iter()).collect(),
        Array(a) => a.iter().collect(),
        Closure(f) => f.cards.iter().collect(),
        ScalarInt(_) | ScalarFloat(_) | StringLiteral(_) | Comment(_) | Function(_) | CreateTable | ReadVar(_)
        | NativeFunction(_) | Abort | ScalarNil => vec![],
    }
}

fn to_model(c: &Card) -> MNode {
    MNode {
        id: Some(c.id.0),
        kind: c.name().to_string() + "/" + kind_tag(c),
        payload: payload_of(c),
        layout: layout_of(c),
        children: children_of(c).into_iter().map(to_model).collect(),
    }
}

fn kind_tag(c: &Card) -> &'static str {
    // Card::name() of a composite card is user data, so add the variant
    use CardBody::*;
    match &c.body {
        CompositeCard(_) => "Composite",
        And(_) => "And",
        Or(_) => "Or",
        Xor(_) => "Xor",
        _ => "",
    }
}

fn default_node() -> MNode {
    MNode {
        id: None,
        kind: String::new(),
        payload: String::new(),
        layout: Layout::Leaf,
        children: vec![],
    }
}

/// structural comparison; a model node with id None matches any leaf card (API-created default)
fn same(m: &MNode, c: &Card, path: &mut Vec<usize>) -> Result<(), String> {
    if m.id.is_none() {
        if !children_of(c).is_empty() {
            return Err(format!("at {path:?}: expected a default leaf card, found {}", c.name()));
        }
        return Ok(());
    }
    if m.id != Some(c.id.0) {
        return Err(format!("at {path:?}: card id {} but the model has {:?} ({})", c.id.0, m.id, m.kind));
    }
    let k = c.name().to_string() + "/" + kind_tag(c);
    if m.kind != k || m.payload != payload_of(c) {
        return Err(format!("at {path:?}: card {}({}) but the model has {}({})", k, payload_of(c), m.kind, m.payload));
    }
    let ch = children_of(c);
    if ch.len() != m.children.len() {
        return Err(format!("at {path:?}: {} has {} children, the model has {}", k, ch.len(), m.children.len()));
    }
    for (i, (mc, cc)) in m.children.iter().zip(ch).enumerate() {
        path.push(i);
        same(mc, cc, path)?;
        path.pop();
    }
    Ok(())
}

struct Model {
    functions: Vec<Vec<MNode>>,
}

impl Model {
    fn of(m: &Module) -> Self {
        Model {
            functions: m.functions.iter().map(|(_, f)| f.cards.iter().map(to_model).collect()).collect(),
        }
    }
    fn compare(&self, m: &Module) -> Result<(), String> {
        if self.functions.len() != m.functions.len() {
            return Err("number of functions changed".into());
        }
        for (fi, (mf, (_, f))) in self.functions.iter().zip(m.functions.iter()).enumerate() {
            if mf.len() != f.cards.len() {
                return Err(format!("function {fi} has {} cards, the model has {}", f.cards.len(), mf.len()));
            }
            for (i, (mc, c)) in mf.iter().zip(f.cards.iter()).enumerate() {
                let mut path = vec![fi, i];
                same(mc, c, &mut path)?;
            }
        }
        Ok(())
    }
    fn get(&self, f: usize, idx: &[u32]) -> Option<&MNode> {
        let cards = self.functions.get(f)?;
        let mut cur = cards.get(*idx.first()? as usize)?;
        for i in &idx[1..] {
            cur = cur.children.get(*i as usize)?;
        }
        Some(cur)
    }
    fn get_mut(&mut self, f: usize, idx: &[u32]) -> Option<&mut MNode> {
        let cards = self.functions.get_mut(f)?;
        let mut cur = cards.get_mut(*idx.first()? as usize)?;
        for i in &idx[1..] {
            cur = cur.children.get_mut(*i as usize)?;
        }
        Some(cur)
    }
    /// Ok(true) if inserted into a list, Ok(false) if it replaced a fixed slot
    fn insert(&mut self, f: usize, idx: &[u32], n: MNode) -> Result<bool, ()> {
        if idx.is_empty() {
            return Err(());
        }
        let last = *idx.last().unwrap() as usize;
        if idx.len() == 1 {
            let cards = self.functions.get_mut(f).ok_or(())?;
            if last > cards.len() {
                return Err(());
            }
            cards.insert(last, n);
            return Ok(true);
        }
        let parent = self.get_mut(f, &idx[..idx.len() - 1]).ok_or(())?;
        match parent.layout {
            Layout::Leaf => Err(()),
            Layout::Fixed => {
                if last < parent.children.len() {
                    parent.children[last] = n;
                    Ok(false)
                } else {
                    Err(())
                }
            }
            Layout::List => {
                if last <= parent.children.len() {
                    parent.children.insert(last, n);
                    Ok(true)
                } else {
                    Err(())
                }
            }
            Layout::HeadList => {
                if last == 0 {
                    parent.children[0] = n;
                    Ok(false)
                } else if last <= parent.children.len() {
                    parent.children.insert(last, n);
                    Ok(true)
                } else {
                    Err(())
                }
            }
        }
    }
    fn remove(&mut self, f: usize, idx: &[u32]) -> Result<MNode, ()> {
        if idx.is_empty() {
            return Err(());
        }
        let last = *idx.last().unwrap() as usize;
        if idx.len() == 1 {
            let cards = self.functions.get_mut(f).ok_or(())?;
            if last >= cards.len() {
                return Err(());
            }
            return Ok(cards.remove(last));
        }
        let parent = self.get_mut(f, &idx[..idx.len() - 1]).ok_or(())?;
        if last >= parent.children.len() {
            return Err(());
        }
        match parent.layout {
            Layout::Leaf => Err(()),
            Layout::List => Ok(parent.children.remove(last)),
            Layout::Fixed => Ok(std::mem::replace(&mut parent.children[last], default_node())),
            Layout::HeadList => {
                if last == 0 {
                    Ok(std::mem::replace(&mut parent.children[0], default_node()))
                } else {
                    Ok(parent.children.remove(last))
                }
            }
        }
    }
    fn count(&self) -> usize {
        fn c(n: &MNode) -> usize {
            1 + n.children.iter().map(c).sum::<usize>()
        }
        self.functions.iter().map(|f| f.iter().map(c).sum::<usize>()).sum()
    }
}

// ---------------------------------------------------------------- case

#[derive(Debug, Clone, Serialize, Deserialize)]
pub enum Op {
    Get(usize, Vec<u32>),
    /// insert a fresh leaf/sub-tree card (by generator seed)
    Insert(usize, Vec<u32>, u64),
    Remove(usize, Vec<u32>),
    Replace(usize, Vec<u32>, u64),
    Swap(usize, Vec<u32>, usize, Vec<u32>),
    InsertThenRemove(usize, Vec<u32>, u64),
    ReplaceBack(usize, Vec<u32>, u64),
    SwapTwice(usize, Vec<u32>, usize, Vec<u32>),
    Walk,
    /// Card::insert_child / remove_child / replace_child directly on the card at the index
    ChildInsert(usize, Vec<u32>, usize, u64),
    ChildRemove(usize, Vec<u32>, usize),
    ChildReplace(usize, Vec<u32>, usize, u64),
}

#[derive(Debug, Clone, Serialize, Deserialize)]
pub struct Case {
    pub module_seed: u64,
    pub n_functions: usize,
    pub depth: usize,
    pub ops: Vec<Op>,
}

#[derive(Default)]
pub struct ModuleEngine {}

pub const N_KINDS: usize = 43;

pub fn gen_card(rng: &mut Prng, depth: usize, kind: Option<usize>) -> Card {
    let leaf_only = depth == 0;
    let k = kind.unwrap_or_else(|| if leaf_only { rng.below(10) } else { rng.below(N_KINDS) });
    let sub = |rng: &mut Prng| gen_card(rng, depth.saturating_sub(1), None);
    let name = |rng: &mut Prng| rng.pick(&["a", "b", "x", "t.f", "g0"]).to_string();
    let body = match k {
        0 => CardBody::ScalarNil,
        1 => CardBody::ScalarInt(rng.range(-5, 5)),
        2 => CardBody::ScalarFloat(rng.range(-5, 5) as f64 / 2.0),
        3 => CardBody::StringLiteral(name(rng)),
        4 => CardBody::CreateTable,
        5 => CardBody::Abort,
        6 => CardBody::ReadVar(name(rng)),
        7 => CardBody::Function(name(rng)),
        8 => CardBody::NativeFunction(name(rng)),
        9 => CardBody::Comment(name(rng)),
        10 => CardBody::Add(Box::new([sub(rng), sub(rng)])),
        11 => CardBody::Sub(Box::new([sub(rng), sub(rng)])),
        12 => CardBody::Mul(Box::new([sub(rng), sub(rng)])),
        13 => CardBody::Div(Box::new([sub(rng), sub(rng)])),
        14 => CardBody::Less(Box::new([sub(rng), sub(rng)])),
        15 => CardBody::LessOrEq(Box::new([sub(rng), sub(rng)])),
        16 => CardBody::Equals(Box::new([sub(rng), sub(rng)])),
        17 => CardBody::NotEquals(Box::new([sub(rng), sub(rng)])),
        18 => CardBody::And(Box::new([sub(rng), sub(rng)])),
        19 => CardBody::Or(Box::new([sub(rng), sub(rng)])),
        20 => CardBody::Xor(Box::new([sub(rng), sub(rng)])),
        21 => CardBody::Not(UnaryExpression::new(sub(rng))),
        22 => CardBody::Return(UnaryExpression::new(sub(rng))),
        23 => CardBody::Len(UnaryExpression::new(sub(rng))),
        24 => CardBody::PopTable(UnaryExpression::new(sub(rng))),
        25 => CardBody::SetProperty(Box::new([sub(rng), sub(rng), sub(rng)])),
        26 => CardBody::GetProperty(Box::new([sub(rng), sub(rng)])),
        27 => CardBody::IfTrue(Box::new([sub(rng), sub(rng)])),
        28 => CardBody::IfFalse(Box::new([sub(rng), sub(rng)])),
        29 => CardBody::IfElse(Box::new([sub(rng), sub(rng), sub(rng)])),
        30 => CardBody::While(Box::new([sub(rng), sub(rng)])),
        31 => CardBody::Get(Box::new([sub(rng), sub(rng)])),
        32 => CardBody::AppendTable(Box::new([sub(rng), sub(rng)])),
        33 => CardBody::SetVar(Box::new(SetVar { name: name(rng), value: sub(rng) })),
        34 => CardBody::SetGlobalVar(Box::new(SetVar { name: name(rng), value: sub(rng) })),
        35 => CardBody::Repeat(Box::new(Repeat {
            i: if rng.chance(1, 2) { Some("i".into()) } else { None },
            n: sub(rng),
            body: sub(rng),
        })),
        36 => CardBody::ForEach(Box::new(ForEach {
            i: if rng.chance(1, 2) { Some("i".into()) } else { None },
            k: if rng.chance(1, 2) { Some("k".into()) } else { None },
            v: if rng.chance(1, 2) { Some("v".into()) } else { None },
            iterable: Box::new(sub(rng)),
            body: Box::new(sub(rng)),
        })),
        37 => {
            let n = rng.below(4);
            CardBody::CompositeCard(Box::new(CompositeCard { ty: name(rng), cards: (0..n).map(|_| sub(rng)).collect() }))
        }
        38 => {
            let n = rng.below(4);
            CardBody::Call(Box::new(StaticJump { args: (0..n).map(|_| sub(rng)).collect::<Vec<_>>().into(), function_name: name(rng) }))
        }
        39 => {
            let n = rng.below(4);
            CardBody::CallNative(Box::new(CallNode { name: name(rng), args: (0..n).map(|_| sub(rng)).collect::<Vec<_>>().into() }))
        }
        40 => {
            let n = rng.below(4);
            CardBody::DynamicCall(Box::new(DynamicJump { args: (0..n).map(|_| sub(rng)).collect::<Vec<_>>().into(), function: sub(rng) }))
        }
        41 => {
            let n = rng.below(4);
            CardBody::Array((0..n).map(|_| sub(rng)).collect())
        }
        _ => {
            let n = rng.below(4);
            CardBody::Closure(Box::new(Function {
                arguments: (0..rng.below(3)).map(|i| format!("p{i}")).collect(),
                cards: (0..n).map(|_| sub(rng)).collect(),
            }))
        }
    };
    body.into()
}

pub fn gen_module(seed: u64, n_functions: usize, depth: usize) -> Module {
    let mut rng = Prng::new(seed);
    let mut m = Module::default();
    // the first function enumerates every kind once at top level, the others are random
    for fi in 0..n_functions.max(1) {
        let mut f = Function::default();
        if fi == 0 {
            let mut kinds: Vec<usize> = (0..N_KINDS).collect();
            rng.shuffle(&mut kinds);
            for k in kinds.into_iter().take(12 + rng.below(N_KINDS - 12)) {
                f.cards.push(gen_card(&mut rng, depth, Some(k)));
            }
        } else {
            for _ in 0..rng.below(6) {
                f.cards.push(gen_card(&mut rng, depth, None));
            }
        }
        m.functions.push((format!("f{fi}"), f));
    }
    m
}

fn all_indices(m: &Model) -> Vec<(usize, Vec<u32>)> {
    fn rec(n: &MNode, f: usize, path: &mut Vec<u32>, out: &mut Vec<(usize, Vec<u32>)>) {
        out.push((f, path.clone()));
        for (i, c) in n.children.iter().enumerate() {
            path.push(i as u32);
            rec(c, f, path, out);
            path.pop();
        }
    }
    let mut out = Vec::new();
    for (f, cards) in m.functions.iter().enumerate() {
        for (i, c) in cards.iter().enumerate() {
            let mut p = vec![i as u32];
            rec(c, f, &mut p, &mut out);
        }
    }
    out
}

impl ModuleEngine {
    fn gen_index(&self, rng: &mut Prng, valid: &[(usize, Vec<u32>)], nf: usize) -> (usize, Vec<u32>) {
        if valid.is_empty() {
            return (0, vec![0]);
        }
        let (f, mut p) = rng.pick(valid).clone();
        match rng.below(12) {
            0 => {
                // one past the end / out of range at the last level
                let l = p.len() - 1;
                p[l] += rng.range(1, 5) as u32;
                (f, p)
            }
            1 => {
                p.push(rng.below(4) as u32); // maybe too deep / into a leaf
                (f, p)
            }
            2 => (nf + rng.below(2), p), // other / missing function
            3 => (f, vec![]),            // empty index
            4 => {
                p.push(0);
                p.push(7);
                (f, p)
            }
            _ => (f, p),
        }
    }
}

impl Engine for ModuleEngine {
    type Case = Case;
    fn name(&self) -> &'static str {
        "module"
    }

    fn gen(&mut self, rng: &mut Prng, tier: Tier) -> Case {
        let module_seed = rng.next_u64();
        let n_functions = rng.range(1, 3) as usize;
        let depth = rng.range(1, 4) as usize;
        let m = gen_module(module_seed, n_functions, depth);
        let model = Model::of(&m);
        // indices are drawn against the *initial* shape; edits drift away from it which yields both
        // valid and invalid indices later in the history
        let valid = all_indices(&model);
        let n_ops = rng.range(4, if tier == Tier::Quick { 40 } else { 80 }) as usize;
        let mut ops = Vec::new();
        for _ in 0..n_ops {
            let (f, p) = self.gen_index(rng, &valid, n_functions);
            let s = rng.next_u64();
            let op = match rng.weighted(&[6, 10, 10, 8, 8, 6, 5, 5, 2, 5, 5, 4]) {
                0 => Op::Get(f, p),
                1 => Op::Insert(f, p, s),
                2 => Op::Remove(f, p),
                3 => Op::Replace(f, p, s),
                4 => {
                    let (f2, p2) = match rng.below(5) {
                        0 => (f, p.clone()), // lhs == rhs
                        1 => {
                            // descendant
                            let mut q = p.clone();
                            q.push(rng.below(3) as u32);
                            (f, q)
                        }
                        2 => {
                            let mut q = p.clone();
                            q.pop();
                            (f, q) // ancestor (or empty)
                        }
                        _ => self.gen_index(rng, &valid, n_functions),
                    };
                    Op::Swap(f, p, f2, p2)
                }
                5 => Op::InsertThenRemove(f, p, s),
                6 => Op::ReplaceBack(f, p, s),
                7 => {
                    let (f2, p2) = self.gen_index(rng, &valid, n_functions);
                    Op::SwapTwice(f, p, f2, p2)
                }
                8 => Op::Walk,
                9 => Op::ChildInsert(f, p, rng.below(5), s),
                10 => Op::ChildRemove(f, p, rng.below(5)),
                _ => Op::ChildReplace(f, p, rng.below(5), s),
            };
            ops.push(op);
        }
        Case { module_seed, n_functions, depth, ops }
    }

    fn run(&mut self, case: &Case, obs: &mut Obs) -> Verdict {
        run_case(case, obs)
    }

    fn shrink(&self, case: &Case) -> Vec<Case> {
        let mut out = Vec::new();
        let n = case.ops.len();
        let mut chunk = n / 2;
        while chunk >= 1 {
            let mut start = 0;
            while start < n {
                let mut c = case.clone();
                let end = (start + chunk).min(n);
                c.ops.drain(start..end);
                out.push(c);
                start += chunk;
            }
            if chunk == 1 {
                break;
            }
            chunk /= 2;
        }
        out
    }
}

fn viol(op: &str, what: &str, detail: String) -> Verdict {
    Verdict::violation(format!("C16:{op}:{what}"), detail)
}

fn ci(f: usize, p: &[u32]) -> CardIndex {
    CardIndex::from_slice(f, p)
}

fn is_prefix(a: &[u32], b: &[u32]) -> bool {
    a.len() <= b.len() && &b[..a.len()] == a
}

fn check_children_api(m: &Module) -> Result<(), String> {
    fn rec(c: &Card, path: &mut Vec<u32>) -> Result<(), String> {
        let want = children_of(c);
        let n = c.num_children() as usize;
        let it: Vec<&Card> = c.iter_children().collect();
        if n != want.len() || it.len() != want.len() {
            return Err(format!("{} at {path:?}: num_children() = {n}, iter_children() yields {}, the card has {} children", c.name(), it.len(), want.len()));
        }
        for (i, w) in want.iter().enumerate() {
            let g = c.get_child(i).map(|x| x.id.0);
            if g != Some(w.id.0) || it[i].id.0 != w.id.0 {
                return Err(format!("{} at {path:?}: child slot {i}: get_child -> {g:?}, iter_children -> {}, documented child is {}", c.name(), it[i].id.0, w.id.0));
            }
        }
        if c.get_child(want.len()).is_some() {
            return Err(format!("{} at {path:?}: get_child({}) one past the end is Some", c.name(), want.len()));
        }
        for (i, w) in want.iter().enumerate() {
            path.push(i as u32);
            rec(w, path)?;
            path.pop();
        }
        Ok(())
    }
    for (_, f) in m.functions.iter() {
        for (i, c) in f.cards.iter().enumerate() {
            rec(c, &mut vec![i as u32])?;
        }
    }
    Ok(())
}

fn check_children_mut_api(m: &mut Module) -> Result<(), String> {
    fn rec(c: &mut Card, path: &mut Vec<u32>) -> Result<(), String> {
        let want: Vec<u64> = children_of(c).iter().map(|x| x.id.0).collect();
        let it: Vec<u64> = c.iter_children_mut().map(|x| x.id.0).collect();
        if it != want {
            return Err(format!("{} at {path:?}: iter_children_mut yields {it:?}, documented children {want:?}", c.name()));
        }
        for (i, w) in want.iter().enumerate() {
            let g = c.get_child_mut(i).map(|x| x.id.0);
            if g != Some(*w) {
                return Err(format!("{} at {path:?}: get_child_mut({i}) -> {g:?}, expected {w}", c.name()));
            }
        }
        if c.get_child_mut(want.len()).is_some() {
            return Err(format!("{} at {path:?}: get_child_mut one past the end is Some", c.name()));
        }
        for i in 0..want.len() {
            path.push(i as u32);
            rec(c.get_child_mut(i).unwrap(), path)?;
            path.pop();
        }
        Ok(())
    }
    for (_, f) in m.functions.iter_mut() {
        for (i, c) in f.cards.iter_mut().enumerate() {
            rec(c, &mut vec![i as u32])?;
        }
    }
    Ok(())
}

fn check_walk(m: &mut Module, model: &Model) -> Result<usize, String> {
    let mut visited: Vec<(CardIndex, u64)> = Vec::new();
    m.walk_cards(|idx, c| visited.push((idx.clone(), c.id.0)));
    let mut ids = std::collections::HashSet::new();
    for (idx, id) in &visited {
        if !ids.insert(*id) {
            return Err(format!("walk_cards visits card {id} more than once"));
        }
        match m.get_card(idx) {
            Ok(c) if c.id.0 == *id => {}
            Ok(c) => return Err(format!("walk_cards reported index {idx} for card {id}, but get_card returns card {}", c.id.0)),
            Err(e) => return Err(format!("walk_cards reported index {idx} for card {id}, but get_card fails: {e}")),
        }
    }
    if visited.len() != model.count() {
        return Err(format!("walk_cards visited {} cards, the module has {}", visited.len(), model.count()));
    }
    let mut v2 = 0usize;
    m.walk_cards_mut(|_, _| v2 += 1);
    if v2 != visited.len() {
        return Err(format!("walk_cards_mut visited {v2} cards, walk_cards {}", visited.len()));
    }
    Ok(visited.len())
}

fn run_case(case: &Case, obs: &mut Obs) -> Verdict {
    let mut m = gen_module(case.module_seed, case.n_functions, case.depth);
    let mut model = Model::of(&m);
    if let Err(e) = model.compare(&m) {
        return Verdict::Inconclusive { reason: format!("harness model does not match the fresh module: {e}") };
    }
    if let Err(e) = check_children_api(&m) {
        return viol("children", "disagree", e);
    }
    if let Err(e) = check_children_mut_api(&mut m) {
        return viol("children_mut", "disagree", e);
    }
    match check_walk(&mut m, &model) {
        Ok(n) => obs.add("cards_walked", n as u64),
        Err(e) => return viol("walk", "index", e),
    }
    let mut fresh_seed = case.module_seed ^ 0x55;
    let mut fresh = |s: u64| -> Card {
        fresh_seed = fresh_seed.wrapping_add(1);
        let mut r = Prng::new(s ^ fresh_seed);
        let d = r.below(3);
        gen_card(&mut r, d, None)
    };
    let mut failing_edits = 0u64;

    for (step, op) in case.ops.iter().enumerate() {
        let before = model.functions.clone();
        macro_rules! unchanged {
            ($name:expr) => {{
                failing_edits += 1;
                model.functions = before.clone();
                if let Err(e) = model.compare(&m) {
                    return viol($name, "failed-edit-changed-module", format!("step {step}: {op:?} failed but the module changed: {e}"));
                }
            }};
        }
        match op {
            Op::Get(f, p) => {
                let got = m.get_card(&ci(*f, p)).ok().map(|c| c.id.0);
                let want = model.get(*f, p);
                obs.inc(if want.is_some() { "get:valid" } else { "get:invalid" });
                match (got, want) {
                    (None, None) => {}
                    (Some(g), Some(w)) => {
                        if w.id.is_some() && w.id != Some(g) {
                            return viol("get", "wrong-card", format!("step {step}: get_card({f},{p:?}) returned card {g}, the model has {:?}", w.id));
                        }
                    }
                    (g, w) => {
                        return viol("get", "presence", format!("step {step}: get_card({f},{p:?}) is_some = {}, the model says {}", g.is_some(), w.is_some()));
                    }
                }
                let gm = m.get_card_mut(&ci(*f, p)).ok().map(|c| c.id.0);
                if gm != got {
                    return viol("get_mut", "disagree", format!("step {step}: get_card_mut({f},{p:?}) = {gm:?} but get_card = {got:?}"));
                }
            }
            Op::Insert(f, p, s) => {
                let card = fresh(*s);
                let node = to_model(&card);
                let r = m.insert_card(&ci(*f, p), card);
                let want = model.insert(*f, p, node);
                obs.inc(&format!("insert:{}", match want { Ok(true) => "list", Ok(false) => "fixed-slot", Err(_) => "invalid" }));
                match (r.is_ok(), want.is_ok()) {
                    (true, true) => {}
                    (false, false) => unchanged!("insert"),
                    (true, false) => {
                        model.functions = before.clone();
                        return match model.compare(&m) {
                            Ok(()) => viol("insert", "reported-ok-but-dropped", format!("step {step}: insert_card({f},{p:?}) at an invalid index returned Ok and the card was dropped")),
                            Err(e) => viol("insert", "accepted-invalid-index", format!("step {step}: insert_card({f},{p:?}) at an invalid index succeeded: {e}")),
                        };
                    }
                    (false, true) => {
                        return viol("insert", "rejected-valid-index", format!("step {step}: insert_card({f},{p:?}) at a valid index failed: {:?}", r.err()));
                    }
                }
            }
            Op::Remove(f, p) => {
                let r = m.remove_card(&ci(*f, p));
                let want = model.remove(*f, p);
                obs.inc(if want.is_ok() { "remove:valid" } else { "remove:invalid" });
                match (r, want) {
                    (Ok(c), Ok(w)) => {
                        if w.id.is_some() && w.id != Some(c.id.0) {
                            return viol("remove", "wrong-card", format!("step {step}: remove_card({f},{p:?}) returned card {}, the model has {:?}", c.id.0, w.id));
                        }
                    }
                    (Err(_), Err(_)) => unchanged!("remove"),
                    (Ok(_), Err(_)) => return viol("remove", "accepted-invalid-index", format!("step {step}: remove_card({f},{p:?}) with an invalid index succeeded")),
                    (Err(e), Ok(_)) => return viol("remove", "rejected-valid-index", format!("step {step}: remove_card({f},{p:?}) failed: {e}")),
                }
            }
            Op::Replace(f, p, s) => {
                let card = fresh(*s);
                let node = to_model(&card);
                let r = m.replace_card(&ci(*f, p), card);
                obs.inc(if model.get(*f, p).is_some() { "replace:valid" } else { "replace:invalid" });
                match (r, model.get_mut(*f, p)) {
                    (Ok(old), Some(slot)) => {
                        if slot.id.is_some() && slot.id != Some(old.id.0) {
                            return viol("replace", "wrong-card", format!("step {step}: replace_card returned card {}, the model has {:?}", old.id.0, slot.id));
                        }
                        *slot = node;
                    }
                    (Err(_), None) => unchanged!("replace"),
                    (Ok(_), None) => return viol("replace", "accepted-invalid-index", format!("step {step}: replace_card({f},{p:?}) with an invalid index succeeded")),
                    (Err(e), Some(_)) => return viol("replace", "rejected-valid-index", format!("step {step}: replace_card({f},{p:?}) failed: {e}")),
                }
            }
            Op::Swap(f1, p1, f2, p2) | Op::SwapTwice(f1, p1, f2, p2) => {
                let twice = matches!(op, Op::SwapTwice(..));
                let a = model.get(*f1, p1).cloned();
                let b = model.get(*f2, p2).cloned();
                let related = f1 == f2 && (is_prefix(p1, p2) || is_prefix(p2, p1));
                let same_idx = f1 == f2 && p1 == p2;
                let legal = a.is_some() && b.is_some() && !related;
                obs.inc(&format!("swap:{}", if same_idx { "same" } else if related { "ancestor" } else if legal { "valid" } else { "invalid" }));
                let r = m.swap_cards(&ci(*f1, p1), &ci(*f2, p2));
                if legal {
                    if let Err(e) = r {
                        return viol("swap", "rejected-valid", format!("step {step}: swap_cards({f1},{p1:?} <-> {f2},{p2:?}) failed: {e}"));
                    }
                    if twice {
                        if let Err(e) = m.swap_cards(&ci(*f1, p1), &ci(*f2, p2)) {
                            return viol("swap", "second-swap-failed", format!("step {step}: the second swap failed: {e}"));
                        }
                        obs.inc("law:swap-twice");
                    } else {
                        *model.get_mut(*f1, p1).unwrap() = b.unwrap();
                        *model.get_mut(*f2, p2).unwrap() = a.unwrap();
                    }
                } else if same_idx && a.is_some() {
                    // swapping a card with itself: success or failure are both acceptable, the module must not change
                    if let Err(e) = model.compare(&m) {
                        return viol("swap", "self-swap-changed-module", format!("step {step}: swap_cards(x, x) at {f1},{p1:?} changed the module: {e}"));
                    }
                } else {
                    if r.is_ok() {
                        return viol("swap", "accepted-invalid", format!("step {step}: swap_cards({f1},{p1:?} <-> {f2},{p2:?}) (ancestor/descendant or invalid index) succeeded"));
                    }
                    unchanged!("swap");
                }
            }
            Op::InsertThenRemove(f, p, s) => {
                let card = fresh(*s);
                let id = card.id.0;
                let mut probe = Model { functions: model.functions.clone() };
                let want = probe.insert(*f, p, to_model(&card));
                if want == Ok(true) {
                    if let Err(e) = m.insert_card(&ci(*f, p), card) {
                        return viol("insert", "rejected-valid-index", format!("step {step}: insert_card({f},{p:?}) failed: {e}"));
                    }
                    match m.remove_card(&ci(*f, p)) {
                        Ok(c) if c.id.0 == id => {}
                        Ok(c) => return viol("remove", "insert-remove-law", format!("step {step}: remove after insert at {f},{p:?} returned card {} instead of the inserted {id}", c.id.0)),
                        Err(e) => return viol("remove", "insert-remove-law", format!("step {step}: remove after insert at {f},{p:?} failed: {e}")),
                    }
                    obs.inc("law:insert-remove");
                    // the model is unchanged: remove undoes insert
                }
            }
            Op::ReplaceBack(f, p, s) => {
                if model.get(*f, p).is_some() {
                    let card = fresh(*s);
                    let id = card.id.0;
                    let old = match m.replace_card(&ci(*f, p), card) {
                        Ok(o) => o,
                        Err(e) => return viol("replace", "rejected-valid-index", format!("step {step}: replace_card failed: {e}")),
                    };
                    match m.replace_card(&ci(*f, p), old) {
                        Ok(c) if c.id.0 == id => {}
                        _ => return viol("replace", "replace-back-law", format!("step {step}: replacing back at {f},{p:?} did not return the temporary card")),
                    }
                    obs.inc("law:replace-back");
                }
            }
            Op::Walk => match check_walk(&mut m, &model) {
                Ok(n) => obs.add("cards_walked", n as u64),
                Err(e) => return viol("walk", "index", format!("step {step}: {e}")),
            },
            Op::ChildInsert(f, p, i, s) => {
                if model.get(*f, p).is_some() {
                    let card = fresh(*s);
                    let node = to_model(&card);
                    let mut q = p.clone();
                    q.push(*i as u32);
                    let want = model.insert(*f, &q, node);
                    let kind = m.get_card(&ci(*f, p)).map(|c| c.name().to_string()).unwrap_or_default();
                    let r = m.get_card_mut(&ci(*f, p)).unwrap().insert_child(*i, card);
                    obs.inc(&format!("insert_child:{}", match want { Ok(true) => "list", Ok(false) => "fixed-slot", Err(_) => "invalid" }));
                    match (r.is_ok(), want.is_ok()) {
                        (true, true) => {}
                        (false, false) => unchanged!("insert_child"),
                        (true, false) => {
                            model.functions = before.clone();
                            return match model.compare(&m) {
                                Ok(()) => viol("insert_child", "reported-ok-but-dropped", format!("step {step}: {kind}.insert_child({i}) past the end returned Ok(()) and dropped the card")),
                                Err(e) => viol("insert_child", "accepted-invalid-index", format!("step {step}: {kind}.insert_child({i}) with an invalid index succeeded: {e}")),
                            };
                        }
                        (false, true) => return viol("insert_child", "rejected-valid-index", format!("step {step}: {kind}.insert_child({i}) failed")),
                    }
                }
            }
            Op::ChildRemove(f, p, i) => {
                if model.get(*f, p).is_some() {
                    let mut q = p.clone();
                    q.push(*i as u32);
                    let want = model.remove(*f, &q);
                    let kind = m.get_card(&ci(*f, p)).map(|c| c.name().to_string()).unwrap_or_default();
                    let r = m.get_card_mut(&ci(*f, p)).unwrap().remove_child(*i);
                    obs.inc(if want.is_ok() { "remove_child:valid" } else { "remove_child:invalid" });
                    match (r, want) {
                        (Some(c), Ok(w)) => {
                            if w.id.is_some() && w.id != Some(c.id.0) {
                                return viol("remove_child", "wrong-card", format!("step {step}: {kind}.remove_child({i}) returned card {}, the model has {:?}", c.id.0, w.id));
                            }
                        }
                        (None, Err(_)) => unchanged!("remove_child"),
                        (Some(_), Err(_)) => return viol("remove_child", "accepted-invalid-index", format!("step {step}: {kind}.remove_child({i}) with an invalid index succeeded")),
                        (None, Ok(_)) => return viol("remove_child", "rejected-valid-index", format!("step {step}: {kind}.remove_child({i}) failed")),
                    }
                }
            }
            Op::ChildReplace(f, p, i, s) => {
                if model.get(*f, p).is_some() {
                    let card = fresh(*s);
                    let node = to_model(&card);
                    let mut q = p.clone();
                    q.push(*i as u32);
                    let kind = m.get_card(&ci(*f, p)).map(|c| c.name().to_string()).unwrap_or_default();
                    let r = m.get_card_mut(&ci(*f, p)).unwrap().replace_child(*i, card);
                    obs.inc(if model.get(*f, &q).is_some() { "replace_child:valid" } else { "replace_child:invalid" });
                    match (r, model.get_mut(*f, &q)) {
                        (Ok(old), Some(slot)) => {
                            if slot.id.is_some() && slot.id != Some(old.id.0) {
                                return viol("replace_child", "wrong-card", format!("step {step}: {kind}.replace_child({i}) returned card {}", old.id.0));
                            }
                            *slot = node;
                        }
                        (Err(_), None) => unchanged!("replace_child"),
                        (Ok(_), None) => return viol("replace_child", "accepted-invalid-index", format!("step {step}: {kind}.replace_child({i}) with an invalid index succeeded")),
                        (Err(_), Some(_)) => return viol("replace_child", "rejected-valid-index", format!("step {step}: {kind}.replace_child({i}) failed")),
                    }
                }
            }
        }
        if let Err(e) = model.compare(&m) {
            return viol(op_name(op), "module-differs", format!("step {step} after {op:?}: {e}"));
        }
        if let Err(e) = check_children_api(&m) {
            return viol("children", "disagree", format!("step {step} after {op:?}: {e}"));
        }
        obs.inc("edits_compared");
    }
    if let Err(e) = check_children_mut_api(&mut m) {
        return viol("children_mut", "disagree", e);
    }
    if let Err(e) = check_walk(&mut m, &model) {
        return viol("walk", "index", format!("at the end of the history: {e}"));
    }
    obs.add("failing_edits_checked_for_noop", failing_edits);
    if case.ops.len() >= 8 {
        obs.nontrivial = true;
    }
    Verdict::Ok
}

fn op_name(op: &Op) -> &'static str {
    match op {
        Op::Get(..) => "get",
        Op::Insert(..) => "insert",
        Op::Remove(..) => "remove",
        Op::Replace(..) => "replace",
        Op::Swap(..) => "swap",
        Op::InsertThenRemove(..) => "insert-remove",
        Op::ReplaceBack(..) => "replace-back",
        Op::SwapTwice(..) => "swap-twice",
        Op::Walk => "walk",
        Op::ChildInsert(..) => "insert_child",
        Op::ChildRemove(..) => "remove_child",
        Op::ChildReplace(..) => "replace_child",
    }
}
